---------------------------- MODULE TraceSearch ----------------------------
(* impl -> spec for the traversals: every event is one traversal call made on *)
(* the real code (graph logged once per "graph" event) with its result and,   *)
(* when a closure was installed, the edges it was handed.  TLC evaluates the  *)
(* property layer (SearchProps) on what the implementation actually returned  *)
(* and prints a verdict per event; it never compares with the algorithm layer.*)
(* Also used for stage-2 adjudication of replay mismatches, and for the node  *)
(* comparison table of C06 ("cmp" events).                                    *)
EXTENDS SearchProps, TLC, Json, IOUtils

CONSTANT ExactLimit       \* graphs with more nodes use PostorderNecessary instead of PostSim

VARIABLES l, nval, gn, nbad

Rec == ndJsonDeserialize(IOEnv.TRACE)
tvars == <<out, inn, l, nval, gn, nbad>>

TInit == out = Empty /\ inn = Empty /\ l = 1 /\ nval = [n \in Nodes |-> 0] /\ gn = 0 /\ nbad = 0

SeqToSet(s) == {s[k] : k \in 1..Len(s)}
View(ev) == [out |-> out, inn |-> inn, dir |-> ev.dir, rej |-> SeqToSet(ev.rej)]

When(c, s) == IF c THEN <<s>> ELSE <<>>

PathEdgeReasons(g, p) ==
     When(\E k \in 1..Len(p) : ~HasEdge(g, p[k]), "nonexistent-edge-in-result")
  \o When(\E k \in 1..Len(p) : ~Acc(g, p[k]), "rejected-edge-in-result")

PathReasons(ev, g) ==
  LET r == ev.root
      t == ev.target
      reach == t \in Reach(g, r) IN
  IF ev.entry = "search_path"
  THEN IF ev.rt = "none" THEN When(reach, "missed-reachable-target")
       ELSE IF ev.rt = "path"
       THEN LET p == ev.res.path IN
               When(~reach, "result-for-unreachable-target")
            \o When(~IsAccPath(g, r, t, p), "invalid-path")
            \o PathEdgeReasons(g, p)
            \o When(ev.kind = "bfs" /\ reach /\ Len(p) # Dist(g, r, t), "not-shortest")
            \o When(ev.kind = "dfs" /\ Len(p) >= 1 /\ ~Simple(p), "not-simple")
       ELSE <<"malformed-result">>
  ELSE IF ev.entry = "search"
  THEN IF ev.rt = "none" THEN When(reach, "missed-reachable-target")
       ELSE IF ev.rt = "node"
       THEN When(~reach, "result-for-unreachable-target") \o When(ev.res.node # t, "wrong-node")
       ELSE <<"malformed-result">>
  ELSE <<"malformed-result">>

CycleReasons(ev, g) ==
  LET r == ev.root
      has == HasCycleThrough(g, r) IN
  IF ev.rt = "none" THEN When(has, "missed-cycle")
  ELSE IF ev.rt = "path"
  THEN LET p == ev.res.path IN
          When(~has, "cycle-reported-but-none-exists")
       \o When(~IsAccPath(g, r, r, p), "invalid-cycle")
       \o PathEdgeReasons(g, p)
       \o When(Directed /\ Len(p) >= 1 /\ ~NoRepeat(SubSeq(NodesOf(p), 1, Len(p))), "cycle-repeats-node")
       \o When(Directed /\ ev.kind = "bfs" /\ has /\ Len(p) # CycleDist(g, r), "cycle-not-shortest")
  ELSE <<"malformed-result">>

PostOK(g, r, s) == IF gn <= ExactLimit THEN IsDfsPostorder(g, r, s) ELSE PostorderNecessary(g, r, s)

OrderReasons(ev, g) ==
  LET r == ev.root
      pre == ev.kind = "pre" IN
  IF ev.entry = "search_nodes" /\ ev.rt = "nodes"
  THEN LET s == ev.res.nodes IN
       IF \E k \in 1..Len(s) : ~InGraph(s[k]) THEN <<"malformed-result">>
       ELSE IF pre THEN When(~IsDfsPreorder(g, r, s), "not-a-dfs-preorder")
       ELSE When(~PostOK(g, r, s), "not-a-dfs-postorder")
  ELSE IF ev.entry = "search_edges" /\ ev.rt = "edges"
  THEN LET es == ev.res.edges
           ts == [k \in 1..Len(es) |-> es[k][2]]
           s  == IF pre THEN <<r>> \o ts ELSE ts \o <<r>> IN
       IF \E k \in 1..Len(s) : ~InGraph(s[k]) THEN <<"malformed-result">>
       ELSE (IF pre THEN When(~IsDfsPreorder(g, r, s), "not-a-dfs-preorder")
             ELSE When(~PostOK(g, r, s), "not-a-dfs-postorder"))
         \o When(~TreeEdgesOK(g, r, pre, s, es), "bad-tree-edges")
         \o PathEdgeReasons(g, es)
  ELSE <<"malformed-result">>

ExaminedReasons(ev, g) ==
  IF "examined" \notin DOMAIN ev THEN <<>>
  ELSE LET x == ev.examined
           hist == [k \in 1..Len(x) |-> <<x[k][1], x[k][2], x[k][3], Acc(g, x[k])>>] IN
          When(\E k \in 1..Len(x) : ~HasEdge(g, x[k]), "examined-nonexistent-edge")
       \o When(~ev.cyc /\ ev.target = 0 /\ (\A k \in 1..Len(x) : InGraph(x[k][1]))
               /\ ~ExaminedExactlyOnce(g, ev.root, x), "examined-bag-wrong")
       \o When(ev.kind \in {"pfsmin", "pfsmax"} /\ (\A k \in 1..Len(x) : InGraph(x[k][1]))
               /\ ~ExpansionOrderOK(g, nval, ev.kind = "pfsmax", ev.root, hist), "expansion-order-wrong")

QueryReasons(ev) ==
  LET g == View(ev) IN
  IF ev.rt = "fail" THEN <<"failure">>
  ELSE (IF ev.cyc THEN CycleReasons(ev, g)
        ELSE IF ev.kind \in {"pre", "post"} THEN OrderReasons(ev, g)
        ELSE IF ev.target = 0 THEN <<>>
        ELSE PathReasons(ev, g))
       \o ExaminedReasons(ev, g)

\* C06, last sentence: nodes order by value (Ord and PartialOrd alike), equal by key
Ord3(a, b) == IF a < b THEN "lt" ELSE IF a = b THEN "eq" ELSE "gt"
CmpReasons(ev) ==
  LET ka == ev.a[1]  va == ev.a[2]  kb == ev.b[1]  vb == ev.b[2]  o == ev.obs IN
  When(~(/\ o.cmp = Ord3(va, vb) /\ o.pcmp = Ord3(va, vb)
         /\ o.eq = (ka = kb) /\ o.ne = (ka # kb)
         /\ o.lt = (va < vb) /\ o.le = (va <= vb) /\ o.gt = (va > vb) /\ o.ge = (va >= vb)
         /\ o.max_is_b = ((va <= vb) \/ ka = kb)), "comparison-wrong")

\* C11: the components returned by Graph::scc() for the current graph (members 1..gn)
SccReasons(ev) ==
  IF ev.rt = "fail" THEN <<"failure">>
  ELSE IF \E a \in 1..Len(ev.comps) : \E b \in 1..Len(ev.comps[a]) : ~InGraph(ev.comps[a][b])
  THEN <<"malformed-result">>
  ELSE When(~IsSccPartition(Plain(out, inn), 1..gn, ev.comps), "not-the-scc-partition")

TNext ==
  /\ l <= Len(Rec)
  /\ l' = l + 1
  /\ LET ev == Rec[l] IN
     IF ev.ev = "graph"
     THEN /\ out' = [n \in Nodes |-> ev.out[n]] /\ inn' = [n \in Nodes |-> ev.inn[n]]
          /\ nval' = [n \in Nodes |-> ev.nval[n]] /\ gn' = ev.n /\ nbad' = nbad
     ELSE LET v == IF ev.ev = "cmp" THEN CmpReasons(ev)
                   ELSE IF ev.ev = "scc" THEN SccReasons(ev) ELSE QueryReasons(ev) IN
          /\ IF v = <<>> THEN TRUE ELSE PrintT(<<"REJECT", l, v>>)
          /\ nbad' = IF v = <<>> THEN nbad ELSE nbad + 1
          /\ UNCHANGED <<out, inn, nval, gn>>

TSpec == TInit /\ [][TNext]_tvars
Consumed == (l = Len(Rec) + 1) => PrintT(<<"CONSUMED", Len(Rec), "rejected", nbad>>)
AllConsumed == TLCGet("stats").diameter = Len(Rec) + 1
=============================================================================
