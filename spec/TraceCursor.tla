----------------------------- MODULE TraceCursor -----------------------------
(* impl -> spec for C20: what a real edge loop / traversal did while a script  *)
(* of operations ran from inside its body.  Events: cstart (graph, direction), *)
(* yield (edge handed to the body + the graph projected at that moment),       *)
(* mut (script operation, its result, the graph after it), cend (how the loop  *)
(* ended).  TLC verdict per event: every yielded edge exists in the graph at   *)
(* that moment (list of its source in the loop's direction), the graph changes *)
(* only through script operations, each of which is a step the Adjacency       *)
(* contract allows, nothing panics / deadlocks, and the loop terminates.       *)
EXTENDS SearchProps, TLC, Json, IOUtils

VARIABLES l, dir, nbad
Rec == ndJsonDeserialize(IOEnv.TRACE)
tvars == <<out, inn, l, dir, nbad>>
TInit == out = Empty /\ inn = Empty /\ l = 1 /\ dir = "out" /\ nbad = 0

When(c, s) == IF c THEN <<s>> ELSE <<>>
Failed(r) == r \notin {"ok", "EdgeNotFound", "EdgeAlreadyExists"} /\ r \notin Vals
HasState(ev) == {"out", "inn"} \subseteq DOMAIN ev
Logged(ev) == [out |-> [n \in Nodes |-> ev.out[n]], inn |-> [n \in Nodes |-> ev.inn[n]]]

YieldReasons(ev) ==
  IF ~HasState(ev) THEN <<"graph-unreadable-from-inside-the-loop">>
  ELSE LET g == Logged(ev) IN
          When(g.out # out \/ g.inn # inn, "graph-changed-outside-the-script")
       \o When(~HasEdge([out |-> g.out, inn |-> g.inn, dir |-> dir, rej |-> {}], ev.edge),
               "yielded-edge-does-not-exist-at-that-moment")

MutReasons(ev) ==
  IF ev.rt = "fail" \/ ~HasState(ev) THEN <<"panic-or-deadlock-in-loop-body">>
  ELSE LET g == Logged(ev) IN
       IF ev.op[1] = "query" THEN When(g.out # out \/ g.inn # inn, "query-changed-the-graph")
       ELSE When([out |-> g.out, inn |-> g.inn, res |-> ev.res] \notin Contract(ev.op, out, inn),
                 "operation-inside-loop-not-allowed-by-contract")

TNext ==
  /\ l <= Len(Rec)
  /\ l' = l + 1
  /\ LET ev == Rec[l] IN
     IF ev.ev = "cstart"
     THEN /\ out' = [n \in Nodes |-> ev.out[n]] /\ inn' = [n \in Nodes |-> ev.inn[n]]
          /\ dir' = ev.dir /\ nbad' = nbad
     ELSE LET v == IF ev.ev = "yield" THEN YieldReasons(ev)
                   ELSE IF ev.ev = "mut" THEN MutReasons(ev)
                   ELSE When(ev.rt # "ok", "loop-panicked-deadlocked-or-did-not-terminate") IN
          /\ IF v = <<>> THEN TRUE ELSE PrintT(<<"REJECT", l, v>>)
          /\ nbad' = IF v = <<>> THEN nbad ELSE nbad + 1
          /\ dir' = dir
          /\ IF ev.ev = "mut" /\ HasState(ev)
             THEN out' = Logged(ev).out /\ inn' = Logged(ev).inn
             ELSE UNCHANGED <<out, inn>>

TSpec == TInit /\ [][TNext]_tvars
Consumed == (l = Len(Rec) + 1) => PrintT(<<"CONSUMED", Len(Rec), "rejected", nbad>>)
AllConsumed == TLCGet("stats").diameter = Len(Rec) + 1
=============================================================================
