------------------------------ MODULE DfsOrder ------------------------------
(* The depth-first discovery / finishing order the code produces, as a pure    *)
(* function of the graph view (list order = iteration order).  Used by the two *)
(* passes of scc() (Scc.tla) and checked equal to the step machine of Search   *)
(* (MC_Search: RefinesFunctional).                                             *)
EXTENDS SearchProps

RECURSIVE DfsVisit(_, _, _, _, _)
\* walk the list of n from position k on; vis: visited keys; acc = [pre, post]:
\* nodes discovered / finished so far below the root of the whole traversal
DfsVisit(G, n, k, vis, acc) ==
  IF k > Len(GList(G, n)) THEN [pre |-> acc.pre, post |-> acc.post, vis |-> vis]
  ELSE LET ent == GList(G, n)[k]
           w   == ent[1]
           e   == <<n, w, ent[2]>> IN
       IF e \notin G.rej /\ w \notin vis
       THEN LET sub == DfsVisit(G, w, 1, vis \cup {w}, [pre |-> Append(acc.pre, w), post |-> acc.post])
            IN  DfsVisit(G, n, k + 1, sub.vis, [pre |-> sub.pre, post |-> Append(sub.post, w)])
       ELSE DfsVisit(G, n, k + 1, vis, acc)

DfsFrom(G, r)     == DfsVisit(G, r, 1, {r}, [pre |-> <<>>, post |-> <<>>])
PreorderOf(G, r)  == <<r>> \o DfsFrom(G, r).pre
PostorderOf(G, r) == DfsFrom(G, r).post \o <<r>>

\* the filter `|Edge(_, v, _)| !S.contains(v.key())` as a set of rejected triples
AllTriples(o, i, d) ==
  UNION {{<<n, ListOf(o, i, d, n)[k][1], ListOf(o, i, d, n)[k][2]>> : k \in 1..Len(ListOf(o, i, d, n))} : n \in Nodes}
RejectInto(o, i, d, S) == {t \in AllTriples(o, i, d) : t[2] \in S}
=============================================================================
