------------------------------ MODULE AdjCount ------------------------------
(* An integer abstraction of Adjacency for UNBOUNDED edge counts (Apalache):  *)
(* co[u][v][e] = how many entries <<v, e>> out[u] holds, ci[v][u][e] = how    *)
(* many entries <<u, e>> inn[v] holds.  The operations of the contract layer  *)
(* act on these counts; MirrorCount (C01 without the order clause, C02's      *)
(* symmetry) is an INDUCTIVE invariant: checked by Apalache for 3 nodes, 2    *)
(* values and arbitrarily many edges (Init => Inv at length 0; Inv /\ Next    *)
(* => Inv' at length 1 from IndInit).  TLC checks on the bounded list model   *)
(* that the abstraction map commutes (MC_Adjacency: CountAbstraction).        *)
EXTENDS Integers, Apalache

Nodes == {1, 2, 3}
Vals == {1}

VARIABLES
  \* @type: Int -> (Int -> (Int -> Int));
  co,
  \* @type: Int -> (Int -> (Int -> Int));
  ci

Zero == [u \in Nodes |-> [v \in Nodes |-> [e \in Vals |-> 0]]]
Init == co = Zero /\ ci = Zero

Connect(u, v, e) ==
  /\ co' = [co EXCEPT ![u][v][e] = @ + 1]
  /\ ci' = [ci EXCEPT ![v][u][e] = @ + 1]

\* directed disconnect(u, k): one edge u -> k with some value e that exists on both sides
Disconnect(u, k, e) ==
  /\ co[u][k][e] > 0 /\ ci[k][u][e] > 0
  /\ co' = [co EXCEPT ![u][k][e] = @ - 1]
  /\ ci' = [ci EXCEPT ![k][u][e] = @ - 1]

\* isolate(u): every edge incident to u disappears at both endpoints
Isolate(u) ==
  /\ co' = [a \in Nodes |-> [b \in Nodes |-> [e \in Vals |-> IF a = u \/ b = u THEN 0 ELSE co[a][b][e]]]]
  /\ ci' = [a \in Nodes |-> [b \in Nodes |-> [e \in Vals |-> IF a = u \/ b = u THEN 0 ELSE ci[a][b][e]]]]

Next ==
  \/ \E u \in Nodes, v \in Nodes, e \in Vals : Connect(u, v, e)
  \/ \E u \in Nodes, k \in Nodes, e \in Vals : Disconnect(u, k, e)
  \/ \E u \in Nodes : Isolate(u)
  \/ UNCHANGED <<co, ci>>

TypeOK == /\ co \in [Nodes -> [Nodes -> [Vals -> Nat]]]
          /\ ci \in [Nodes -> [Nodes -> [Vals -> Nat]]]
MirrorCount == \A u \in Nodes, v \in Nodes, e \in Vals : co[u][v][e] = ci[v][u][e]
NonNeg == \A u \in Nodes, v \in Nodes, e \in Vals : co[u][v][e] >= 0 /\ ci[u][v][e] >= 0
IndInv == NonNeg /\ MirrorCount
\* arbitrary state satisfying the invariant (for the inductive step)
\* @type: (Int -> (Int -> (Int -> Int))) => Bool;
WellShaped(f) == /\ DOMAIN f = Nodes
                 /\ \A u \in Nodes : DOMAIN f[u] = Nodes /\ \A v \in Nodes : DOMAIN f[u][v] = Vals
IndInit == /\ co = Gen(3) /\ ci = Gen(3)
           /\ WellShaped(co) /\ WellShaped(ci)
           /\ IndInv
=============================================================================
