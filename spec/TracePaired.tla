---------------------------- MODULE TracePaired ----------------------------
(* C15: one single-threaded program executed side by side on a plain flavour *)
(* and on its sync twin (digraph / sync_digraph, ungraph / sync_ungraph).     *)
(* Every event carries both results (r1, r2) and both projected states       *)
(* (s1, s2) in canonical text form (container-order-dependent listings        *)
(* sorted), plus the structured outcome of the plain flavour.  Verdict per    *)
(* event: the step is a step of the specification (Container / Adjacency      *)
(* contract) AND r1 = r2 AND s1 = s2 - equality is required even where the    *)
(* contract would allow several answers.                                      *)
EXTENDS TraceContainer

PairReasons(ev) ==
     When(ev.r1 # ev.r2, "results-differ-between-plain-and-sync")
  \o When(ev.s1 # ev.s2, "states-differ-between-plain-and-sync")

PNext ==
  /\ l <= Len(Rec)
  /\ l' = l + 1
  /\ LET ev == Rec[l] IN
     IF ev.ev = "cstate"
     THEN /\ mem' = [k \in Keys |-> ev.mem[k]] /\ out' = [n \in Nodes |-> ev.out[n]]
          /\ inn' = [n \in Nodes |-> ev.inn[n]] /\ nbad' = nbad
     ELSE IF ev.ev = "pq"          \* a query: no state change
     THEN LET v == PairReasons(ev) IN
          /\ IF v = <<>> THEN TRUE ELSE PrintT(<<"REJECT", l, v>>)
          /\ nbad' = IF v = <<>> THEN nbad ELSE nbad + 1
          /\ UNCHANGED <<out, inn, mem>>
     ELSE LET v == PairReasons(ev) \o OpReasons(ev) IN     \* "pop": a mutation
          /\ IF v = <<>> THEN TRUE ELSE PrintT(<<"REJECT", l, v>>)
          /\ nbad' = IF v = <<>> THEN nbad ELSE nbad + 1
          /\ IF ev.rt = "fail" THEN UNCHANGED <<out, inn, mem>>
             ELSE /\ mem' = [k \in Keys |-> ev.mem[k]] /\ out' = [n \in Nodes |-> ev.out[n]]
                  /\ inn' = [n \in Nodes |-> ev.inn[n]]

PSpec == TInit /\ [][PNext]_tvars
=============================================================================
