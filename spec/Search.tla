------------------------------- MODULE Search -------------------------------
(***************************************************************************)
(* Algorithm layer of the traversals of gdsl (bfs, dfs, pfs min/max,       *)
(* preorder, postorder; plain / transposed; path, cycle and ordering       *)
(* modes) as a state machine shaped like the code: one step per examined   *)
(* edge, FIFO queue / std::BinaryHeap / recursion stack, visited-by-key,   *)
(* discovery edges pushed to an edge tree, result rebuilt by back-tracking *)
(* the tree.  The graph is the live (out, inn) state of Adjacency, read    *)
(* through a positional cursor at every step.                              *)
(*                                                                         *)
(* The property layer is SearchProps; MC_Search checks that every finished *)
(* run of this module satisfies it and emits the runs as cases.            *)
(***************************************************************************)
EXTENDS DfsOrder

VARIABLES nval,     \* node values (priority of pfs)
          phase,    \* "build" | "run" | "done" | "end"
          qry,      \* [kind, root, dir, cyc, rej]
          fr,       \* bfs: FIFO queue; pfs: binary heap array (as std::BinaryHeap)
          cur, pos, \* bfs/pfs: node being expanded (0 = none) and cursor into its list
          stack,    \* dfs/pre/post: recursion frames [n, pos, via]
          visited,  \* set of visited keys
          tree,     \* edge tree: sequence of [e |-> <<u,v,val>>, h |-> index into hist]
          hist,     \* every examined edge, in order: <<u, v, val, accepted>>
          found     \* cycle mode: closing edge found

svars == <<nval, phase, qry, fr, cur, pos, stack, visited, tree, hist, found>>
allvars == <<out, inn, svars>>

NoEdge == <<0, 0, 0>>
Kinds == {"bfs", "dfs", "pfsmin", "pfsmax", "pre", "post"}
IsFrontierKind(k) == k \in {"bfs", "pfsmin", "pfsmax"}

\* the list a traversal walks at node n, as the code reads it now
CurList(n) == ListOf(out, inn, qry.dir, n)

-----------------------------------------------------------------------------
(* std::collections::BinaryHeap<T> exactly (push = sift_up, pop = swap with   *)
(* last + sift_down_to_bottom + sift_up), 0-based positions on a 1-based seq. *)
(* Le(a, b) is `a <= b` of the heap's element type: Node compares by value;   *)
(* min mode wraps nodes in Reverse.                                           *)
Le(a, b) == IF qry.kind = "pfsmax" THEN nval[a] <= nval[b] ELSE nval[b] <= nval[a]

RECURSIVE SiftUp(_, _, _, _)
SiftUp(h, start0, pos0, elem) ==
  IF pos0 > start0
  THEN LET par0 == (pos0 - 1) \div 2 IN
       IF Le(elem, h[par0 + 1]) THEN [h EXCEPT ![pos0 + 1] = elem]
       ELSE SiftUp([h EXCEPT ![pos0 + 1] = h[par0 + 1]], start0, par0, elem)
  ELSE [h EXCEPT ![pos0 + 1] = elem]

HeapPush(h, x) == SiftUp(Append(h, x), 0, Len(h), x)

RECURSIVE SiftDownToBottom(_, _, _, _)
\* hole at hole0 carrying elem; end = Len(h); returns <<heap with hole moved, final hole pos>>
SiftDownToBottom(h, hole0, elem, end) ==
  LET child0 == 2 * hole0 + 1 IN
  IF end >= 2 /\ child0 <= end - 2
  THEN LET c0 == IF Le(h[child0 + 1], h[child0 + 2]) THEN child0 + 1 ELSE child0 IN
       SiftDownToBottom([h EXCEPT ![hole0 + 1] = h[c0 + 1]], c0, elem, end)
  ELSE IF child0 = end - 1
       THEN <<[h EXCEPT ![hole0 + 1] = h[child0 + 1]], child0>>
       ELSE <<h, hole0>>

\* returns [item, heap]
HeapPop(h) ==
  LET last == h[Len(h)]
      rest == SubSeq(h, 1, Len(h) - 1)
  IN  IF rest = <<>> THEN [item |-> last, heap |-> <<>>]
      ELSE LET item == rest[1]
               d == SiftDownToBottom(rest, 0, last, Len(rest))
           IN  [item |-> item, heap |-> SiftUp(d[1], 0, d[2], last)]

-----------------------------------------------------------------------------
(* result reconstruction, as algo/path.rs does it (back-tracking the tree) *)
RECURSIVE BackScan(_, _, _)
\* path (reversed, path[Len] is the earliest edge so far), scanning tree positions k, k-1, ..
BackScan(tr, k, path) ==
  IF k = 0 THEN path
  ELSE IF tr[k][2] = path[Len(path)][1]
       THEN BackScan(tr, k - 1, Append(path, tr[k]))
       ELSE BackScan(tr, k - 1, path)

Rev(s) == [k \in 1..Len(s) |-> s[Len(s) + 1 - k]]

\* tr: sequence of edges <<u,v,val>>, non-empty; the path that ends with its last edge
Backtrack(tr) ==
  IF Len(tr) = 1 THEN tr
  ELSE Rev(BackScan(tr, Len(tr) - 1, <<tr[Len(tr)]>>))

TreeEdges == [k \in 1..Len(tree) |-> tree[k].e]

-----------------------------------------------------------------------------
(* one step *)
Examined(n, p) ==
  LET ent  == CurList(n)[p]
      edge == <<n, ent[1], ent[2]>>
      acc  == edge \notin qry.rej
  IN  [edge |-> edge, acc |-> acc, v |-> ent[1], disc |-> acc /\ ent[1] \notin visited]

StepFrontier ==
  /\ phase = "run" /\ IsFrontierKind(qry.kind)
  /\ UNCHANGED <<out, inn, nval, qry, stack>>
  /\ IF cur = 0
     THEN IF fr = <<>>
          THEN /\ phase' = "done"
               /\ UNCHANGED <<fr, cur, pos, visited, tree, hist, found>>
          ELSE /\ IF qry.kind = "bfs"
                  THEN cur' = Head(fr) /\ fr' = Tail(fr)
                  ELSE LET r == HeapPop(fr) IN cur' = r.item /\ fr' = r.heap
               /\ pos' = 1
               /\ UNCHANGED <<phase, visited, tree, hist, found>>
     ELSE IF pos > Len(CurList(cur))
          THEN /\ cur' = 0 /\ pos' = 0
               /\ UNCHANGED <<phase, fr, visited, tree, hist, found>>
          ELSE LET x == Examined(cur, pos) IN
               /\ hist' = Append(hist, <<x.edge[1], x.edge[2], x.edge[3], x.acc>>)
               /\ pos' = pos + 1
               /\ IF x.disc
                  THEN /\ visited' = visited \cup {x.v}
                       /\ tree' = Append(tree, [e |-> x.edge, h |-> Len(hist) + 1])
                       /\ IF qry.cyc /\ x.v = qry.root
                          THEN found' = TRUE /\ phase' = "done" /\ UNCHANGED <<fr, cur>>
                          ELSE /\ fr' = IF qry.kind = "bfs" THEN Append(fr, x.v) ELSE HeapPush(fr, x.v)
                               /\ UNCHANGED <<found, phase, cur>>
                  ELSE UNCHANGED <<visited, tree, fr, found, phase, cur>>

StepStack ==
  /\ phase = "run" /\ ~IsFrontierKind(qry.kind)
  /\ UNCHANGED <<out, inn, nval, qry, fr, cur, pos>>
  /\ IF stack = <<>>
     THEN phase' = "done" /\ UNCHANGED <<stack, visited, tree, hist, found>>
     ELSE LET d == Len(stack)
              top == stack[d] IN
          IF top.pos > Len(CurList(top.n))
          THEN \* the recursive call for top.n returns
               /\ stack' = SubSeq(stack, 1, d - 1)
               /\ tree' = IF qry.kind = "post" /\ top.via # NoEdge
                          THEN Append(tree, [e |-> top.via, h |-> 0]) ELSE tree
               /\ UNCHANGED <<phase, visited, hist, found>>
          ELSE LET x == Examined(top.n, top.pos)
                   adv == [stack EXCEPT ![d].pos = @ + 1] IN
               /\ hist' = Append(hist, <<x.edge[1], x.edge[2], x.edge[3], x.acc>>)
               /\ IF x.disc
                  THEN /\ visited' = visited \cup {x.v}
                       /\ tree' = IF qry.kind = "post" THEN tree
                                  ELSE Append(tree, [e |-> x.edge, h |-> Len(hist) + 1])
                       /\ IF qry.kind = "dfs" /\ qry.cyc /\ x.v = qry.root
                          THEN found' = TRUE /\ phase' = "done" /\ stack' = adv
                          ELSE /\ stack' = Append(adv, [n |-> x.v, pos |-> 1, via |-> x.edge])
                               /\ UNCHANGED <<found, phase>>
                  ELSE stack' = adv /\ UNCHANGED <<visited, tree, found, phase>>

Step == StepFrontier \/ StepStack

\* starting a traversal on the current graph
Start(kind, root, dir, cyc, rej, vals) ==
  /\ phase = "build"
  /\ phase' = "run"
  /\ qry' = [kind |-> kind, root |-> root, dir |-> dir, cyc |-> cyc, rej |-> rej]
  /\ nval' = vals
  /\ visited' = IF cyc THEN {} ELSE {root}
  /\ tree' = <<>> /\ hist' = <<>> /\ found' = FALSE
  /\ IF IsFrontierKind(kind)
     THEN fr' = <<root>> /\ cur' = 0 /\ pos' = 0 /\ stack' = <<>>
     ELSE fr' = <<>> /\ cur' = 0 /\ pos' = 0 /\ stack' = <<[n |-> root, pos |-> 1, via |-> NoEdge]>>
  /\ UNCHANGED <<out, inn>>

-----------------------------------------------------------------------------
(* results of a finished run *)

\* non-cycle bfs/dfs/pfs: the run with target t is the prefix of this run that
\* ends with the discovery of t
TreeIdx(t) == {k \in 1..Len(tree) : tree[k].e[2] = t}
TargetRes(t) ==
  IF TreeIdx(t) = {} THEN [found |-> FALSE, path |-> <<>>, examined |-> Len(hist)]
  ELSE LET k == CHOOSE j \in TreeIdx(t) : TRUE IN
       [found |-> TRUE, path |-> Backtrack(SubSeq(TreeEdges, 1, k)), examined |-> tree[k].h]

CycleRes == IF found THEN [found |-> TRUE, path |-> Backtrack(TreeEdges)]
            ELSE [found |-> FALSE, path |-> <<>>]

OrderNodes ==
  LET ts == [k \in 1..Len(tree) |-> tree[k].e[2]] IN
  IF qry.kind = "pre" THEN <<qry.root>> \o ts ELSE ts \o <<qry.root>>
OrderEdges == TreeEdges

\* the accepted-edge view of the current graph for the property layer
G == [out |-> out, inn |-> inn, dir |-> qry.dir, rej |-> qry.rej]
HistEdges == [k \in 1..Len(hist) |-> <<hist[k][1], hist[k][2], hist[k][3]>>]

-----------------------------------------------------------------------------
(* the algorithm layer satisfies the property layer (checked in "done" states) *)
Done == phase = "done"

RefinesPathSearch ==      \* C04 / C05 / C06 path clauses
  (Done /\ qry.kind \in {"bfs", "dfs", "pfsmin", "pfsmax"} /\ ~qry.cyc) =>
     \A t \in Nodes \ {qry.root} :
        LET r == TargetRes(t) IN
        /\ r.found = (t \in Reach(G, qry.root))
        /\ r.found => /\ IsAccPath(G, qry.root, t, r.path)
                      /\ (qry.kind = "bfs" => Len(r.path) = Dist(G, qry.root, t))
                      /\ (qry.kind = "dfs" => Simple(r.path))

RefinesExpansionOrder ==  \* C06
  (Done /\ qry.kind \in {"pfsmin", "pfsmax"}) =>
     ExpansionOrderOK(G, nval, qry.kind = "pfsmax", qry.root, hist)

RefinesExamined ==        \* C07
  (Done /\ ~qry.cyc) => ExaminedExactlyOnce(G, qry.root, HistEdges)

RefinesFilter ==          \* C07: rejected edges never appear in results
  Done => \A k \in 1..Len(tree) : tree[k].e \notin qry.rej

RefinesCycle ==           \* C09
  (Done /\ qry.cyc) =>
     /\ found = HasCycleThrough(G, qry.root)
     /\ found => CycleOK(G, qry.root, CycleRes.path, qry.kind = "bfs")

RefinesOrder ==           \* C10
  (Done /\ qry.kind \in {"pre", "post"}) =>
     /\ (qry.kind = "pre" => IsDfsPreorder(G, qry.root, OrderNodes))
     /\ (qry.kind = "post" => IsDfsPostorder(G, qry.root, OrderNodes))
     /\ TreeEdgesOK(G, qry.root, qry.kind = "pre", OrderNodes, OrderEdges)

\* the pure-function form of the orderings (DfsOrder, used by Scc) is the same
RefinesFunctional ==
  (Done /\ qry.kind \in {"pre", "post"}) =>
     OrderNodes = (IF qry.kind = "pre" THEN PreorderOf(G, qry.root) ELSE PostorderOf(G, qry.root))

\* C08: without transpose() no incoming edge is followed; with it only incoming
\* edges, each reported reversed
RefinesDirection ==
  (Directed /\ phase \in {"run", "done"}) =>
     \A k \in 1..Len(hist) : HasEdge(G, HistEdges[k])
=============================================================================
