------------------------------ MODULE SendSync ------------------------------
(***************************************************************************)
(* C16: thread-sharing of nodes is exactly as safe as their payload types. *)
(*                                                                         *)
(* A capability assignment gives each type parameter K, N, E one of         *)
(*   "both" (Send + Sync), "send" (Send only), "sync" (Sync only), "none". *)
(* algorithm layer: what the compiler derives for the sync types from      *)
(*   their structure                                                       *)
(*     Inner    = (K, N, RwLock<Adjacent>)                                 *)
(*     Adjacent = { Vec<(WeakNode, E)>, Vec<(WeakNode, E)> }               *)
(*     WeakNode = Weak<Inner>          Node = Arc<Inner>                   *)
(*     Edge     = (Node, Node, E)      Graph = HashMap<K, Node>            *)
(*   with the standard auto-trait rules, as a greatest fixed point (the    *)
(*   types are recursive), and with the explicit `unsafe impl Send / Sync  *)
(*   for Node` of sync_digraph as data (its where-clauses).                *)
(* property layer: C16 as stated.                                          *)
(* The observed table comes from a probe program compiled against the      *)
(* working tree (TraceSendSync events).                                    *)
(***************************************************************************)
EXTENDS Naturals, Sequences, FiniteSets, TLC, Json, IOUtils

Caps == {"both", "send", "sync", "none"}
IsSend(c) == c \in {"both", "send"}
IsSync(c) == c \in {"both", "sync"}
AllBoth(k, n, e) == k = "both" /\ n = "both" /\ e = "both"

\* greatest fixed point of (Send, Sync) of Inner
RECURSIVE Fix(_, _, _, _, _)
Fix(k, n, e, si, yi) ==
  LET weakSend == si /\ yi               \* Weak<T>: Send iff T: Send + Sync
      weakSync == si /\ yi               \*          Sync iff T: Send + Sync
      adjSend  == weakSend /\ IsSend(e)  \* Vec<(WeakNode, E)>
      adjSync  == weakSync /\ IsSync(e)
      lockSend == adjSend                \* RwLock<T>: Send iff T: Send
      lockSync == adjSend /\ adjSync     \*            Sync iff T: Send + Sync
      si2 == IsSend(k) /\ IsSend(n) /\ lockSend
      yi2 == IsSync(k) /\ IsSync(n) /\ lockSync
  IN  IF si2 = si /\ yi2 = yi THEN <<si, yi>> ELSE Fix(k, n, e, si2, yi2)
Inner(k, n, e) == Fix(k, n, e, TRUE, TRUE)
ArcOfInner(k, n, e) == Inner(k, n, e)[1] /\ Inner(k, n, e)[2]   \* Arc<T>: Send iff Sync iff T: Send + Sync

\* the where-clauses of `unsafe impl Send / Sync for Node` in sync_digraph
ExplicitSend(k, n, e) == k = "both" /\ n = "both" /\ e = "both"
ExplicitSync(k, n, e) == k = "both" /\ n = "both" /\ e = "both"

\* carriers: values the public API hands out besides nodes, edges and graphs
ClosureCarriers == {"Bfs", "Dfs", "Pfs", "Order"}      \* hold the user's type-erased callback
AccessCarriers  == {"Path", "IterOut", "IterIn", "Iter"} \* give access to node / edge values

\* Derived(fl, ty, k, n, e) = <<Send, Sync>>
Derived(fl, ty, k, n, e) ==
  IF fl \in {"digraph", "ungraph"} THEN <<FALSE, FALSE>>       \* Rc / RefCell based
  ELSE LET nodeS == IF fl = "sync_digraph" THEN ExplicitSend(k, n, e) ELSE ArcOfInner(k, n, e)
           nodeY == IF fl = "sync_digraph" THEN ExplicitSync(k, n, e) ELSE ArcOfInner(k, n, e)
       IN  CASE ty = "Node"  -> <<nodeS, nodeY>>
             [] ty = "Edge"  -> <<nodeS /\ IsSend(e), nodeY /\ IsSync(e)>>
             [] ty = "Graph" -> <<nodeS /\ IsSend(k), nodeY /\ IsSync(k)>>
             \* search builders hold `&mut dyn FnMut(&Edge)`: a trait object without `+ Send` / `+ Sync`
             [] ty \in ClosureCarriers -> <<FALSE, FALSE>>
             \* iterators hold `&Node` and a position: &T is Send iff T: Sync, Sync iff T: Sync
             [] ty \in {"IterOut", "IterIn", "Iter"} -> <<nodeY, nodeY>>
             [] ty = "Path"  -> <<nodeS /\ IsSend(e), nodeY /\ IsSync(e)>>     \* Option<Vec<Edge>>

\* ---- property layer (C16) ----
Allowed(fl, ty, k, n, e, s, y) ==
  IF fl \in {"digraph", "ungraph"} THEN ~s /\ ~y
  \* "consequently no safe program can reach a node value or edge value from two threads
  \* without the synchronisation that value's own type provides":
  \*  - a builder carries a callback whose captures are erased from its type; nothing written on
  \*    K, N, E can justify sending or sharing it (the callback may own an Rc, a plain node, a
  \*    sync node with a Cell value ...).  The observed rows are builders to which a callback
  \*    capturing an Rc HAS been attached (if the API ever demanded `+ Send` callbacks, that
  \*    would not compile and the probe reports a tool error instead of a verdict)
  ELSE IF ty \in ClosureCarriers THEN ~s /\ ~y
  \*  - an iterator / path reaches node and edge values: only if, as for the node itself
  ELSE IF ty \in AccessCarriers THEN (s \/ y) => AllBoth(k, n, e)
  ELSE /\ (s \/ y) => AllBoth(k, n, e)         \* only if
       /\ AllBoth(k, n, e) => (s /\ y)         \* always can be when they are

Flavours == {"digraph", "sync_digraph", "ungraph", "sync_ungraph"}
Types == {"Node", "Edge", "Graph"} \cup ClosureCarriers \cup AccessCarriers
\* the algorithm layer satisfies the property for every assignment (checked by TLC as an ASSUME-like invariant)
DerivedSatisfiesC16 ==
  \A fl \in Flavours, ty \in Types, k \in Caps, n \in Caps, e \in Caps :
     LET d == Derived(fl, ty, k, n, e) IN Allowed(fl, ty, k, n, e, d[1], d[2])

\* "no safe program can reach a payload from two threads without the
\* synchronisation its own type provides": a node that can be sent or shared
\* lets a second thread hold an Arc clone, i.e. read K, N, E by shared reference
\* (needs Sync) and drop them there (needs Send)
NoRace(obsSend, obsSync) ==
  \A k \in Caps, n \in Caps, e \in Caps :
     (obsSend[k][n][e] \/ obsSync[k][n][e]) => AllBoth(k, n, e)

-----------------------------------------------------------------------------
VARIABLES l, nbad
Rec == ndJsonDeserialize(IOEnv.TRACE)
TInit == l = 1 /\ nbad = 0
When(c, s) == IF c THEN <<s>> ELSE <<>>
Reasons(ev) ==
  LET d == Derived(ev.fl, ev.ty, ev.k, ev.n, ev.e) IN
     When(~Allowed(ev.fl, ev.ty, ev.k, ev.n, ev.e, ev.send, ev.sync),
          IF ev.fl \in {"digraph", "ungraph"} THEN "plain-type-is-send-or-sync"
          ELSE IF ev.ty \in ClosureCarriers THEN "search-builder-with-type-erased-callback-is-send-or-sync"
          ELSE IF (ev.send \/ ev.sync) /\ ~AllBoth(ev.k, ev.n, ev.e) THEN "sendable-or-shareable-with-unsafe-payload"
          ELSE "not-send-sync-although-payloads-are")
  \o When(Allowed(ev.fl, ev.ty, ev.k, ev.n, ev.e, ev.send, ev.sync) /\ <<ev.send, ev.sync>> # d, "drift:differs-from-derivation")
TNext == /\ l <= Len(Rec) /\ l' = l + 1
         /\ LET v == Reasons(Rec[l]) IN
            /\ IF v = <<>> THEN TRUE ELSE PrintT(<<"REJECT", l, v>>)
            /\ nbad' = IF v = <<>> THEN nbad ELSE nbad + 1
TSpec == TInit /\ [][TNext]_<<l, nbad>>
Consumed == (l = Len(Rec) + 1) => PrintT(<<"CONSUMED", Len(Rec), "rejected", nbad>>)
AllConsumed == TLCGet("stats").diameter = Len(Rec) + 1
ModelOK == DerivedSatisfiesC16
=============================================================================
