---------------------------- MODULE MC_Ownership ----------------------------
EXTENDS Ownership, Json, SequencesExt
CONSTANT MaxEdges

ActSeq == SetToSeq(Actions)
ResJson(r) == [k \in 1..Len(r) |-> [kind |-> r[k].kind, root |-> r[k].root, t |-> r[k].t, objs |-> SetToSeq(r[k].objs)]]
CaseRec ==
  [out |-> out, inn |-> inn, h |-> h, inC |-> SetToSeq(inC), res |-> ResJson(res),
   released_max |-> SetToSeq(Released),
   released_min |-> SetToSeq(ReleasedIn([out |-> out, inn |-> inn, h |-> h, inC |-> inC,
                      res |-> [j \in 1..Len(res) |-> IF res[j].kind = "path" THEN [res[j] EXCEPT !.objs = Reach(G, res[j].root)] ELSE res[j]]])),
   acts |-> LET en == SelectSeq(ActSeq, LAMBDA a : Enabled(a) /\ (a[1] = "connect" => TotalEdges(out) < MaxEdges)) IN
            [k \in 1..Len(en) |->
               LET s == After(en[k])
                   \* a path certainly mentions its endpoints and at most what the root reaches
                   wide == [s EXCEPT !.res = [j \in 1..Len(s.res) |->
                              IF s.res[j].kind = "path" THEN [s.res[j] EXCEPT !.objs = Reach(G, s.res[j].root)] ELSE s.res[j]]]
               IN [a |-> en[k], released_max |-> SetToSeq(ReleasedIn(s)), released_min |-> SetToSeq(ReleasedIn(wide))]]]

ONext == /\ PrintT(ToJson(CaseRec))
         /\ \E a \in Actions :
               /\ Enabled(a) /\ (a[1] = "connect" => TotalEdges(out) < MaxEdges)
               /\ LET s == After(a) IN out' = s.out /\ inn' = s.inn /\ h' = s.h /\ inC' = s.inC /\ res' = s.res
OSpec == OInit /\ [][ONext]_ovars

\* results keep what they mention alive; weak edges keep nothing alive
ResultsKeepAlive == \A k \in 1..Len(res) : \A o \in res[k].objs : Alive(o)
EdgesOwnNothing == \A o \in Nodes : (h[o] = 0 /\ o \notin inC /\ o \notin Mentioned) => o \in Released
\* once every holder is gone, everything is released - whatever the graph looks like
AllDroppedAllReleased == ((\A o \in Nodes : h[o] = 0) /\ inC = {} /\ res = <<>>) => Released = Nodes
=============================================================================
