-------------------------------- MODULE Locks --------------------------------
(***************************************************************************)
(* C17: concurrent calls on shared sync nodes.                             *)
(*                                                                         *)
(* Every public call of the sync flavours is a little program whose steps  *)
(* are its lock acquisitions, exactly as the code takes them: one step =   *)
(* acquire the node's RwLock (read or write), run the critical section,    *)
(* release.  No call of the current code holds one guard while asking for  *)
(* another, so a step is atomic and always enabled, and the interleavings  *)
(* of these steps are all the behaviours there are; the deterministic      *)
(* scheduler (harness) enumerates the same interleavings on the real locks *)
(* through the lock-point hook and additionally observes real blocking.    *)
(*                                                                         *)
(* call         steps  (R = read lock, W = write lock)                     *)
(*  connect u v e      W(u) push out            | W(v) push in             *)
(*  try_connect u v e  R(u) look for an edge    | then as connect          *)
(*  disconnect u k     R(u) find the neighbour  | W(.) remove first half   *)
(*                     | W(.) remove the matching half (Err if it is gone) *)
(*  isolate u          per own entry: R(u) read entry at cursor | W(peer)  *)
(*                     remove mirror entry (PANIC + poisoned lock if it is *)
(*                     missing) ...; W(u) clear out | W(u) clear in        *)
(*  scan u             R(u) per entry (an edge iterator / traversal step)  *)
(*                                                                         *)
(* A panic inside a critical section poisons that lock: every later step   *)
(* on it panics too (`.read().unwrap()` on a PoisonError).                 *)
(*                                                                         *)
(* Checked / emitted per terminal state: panics, poisoned locks, and       *)
(* Linearizable: returns of the mutating calls and the final graph are     *)
(* those of some sequential order (respecting each thread's order) under   *)
(* the Adjacency contract.                                                 *)
(***************************************************************************)
EXTENDS Linearize

CONSTANTS Threads,      \* e.g. 1..2
          MaxCalls,     \* calls per thread
          MaxInitEdges, \* edges of the initial graph (rotational: base edges, each added with its rotations)
          Rotational    \* TRUE: rotationally symmetric scenarios (thread t runs thread 1's call with every
                        \* operand rotated t-1 times, initial edges come with their rotations): the shape
                        \* of lock-order cycles through all nodes, at a fraction of the scenarios

VARIABLES prog,     \* [Threads -> Seq(call)] : call = <<name, args..>>
          ci,       \* [Threads -> index of the current call]
          pc,       \* [Threads -> step label within the call]
          reg,      \* [Threads -> registers of the current call: [pos, val, peer]]
          rets,     \* [Threads -> Seq(result)]
          status,   \* [Threads -> "run" | "done" | "panicked"]
          poisoned, \* set of nodes whose lock is poisoned
          phase,    \* "init" | "pick" | "run"
          g0        \* the initial graph of the scenario

lvars == <<prog, ci, pc, reg, rets, status, poisoned, phase, g0>>
allv == <<out, inn, lvars>>

NoReg == [pos |-> 0, val |-> 0, peer |-> 0]
Calls == {<<"connect", u, v, 1>> : u \in Nodes, v \in Nodes}
   \cup {<<"try_connect", u, v, 1>> : u \in Nodes, v \in Nodes}
   \cup {<<"disconnect", u, k>> : u \in Nodes, k \in Nodes}
   \cup {<<"isolate", u>> : u \in Nodes}
   \cup {<<"scan", u>> : u \in Nodes}
   \cup {<<"degree", u>> : u \in Nodes}      \* the degree / root / leaf / orphan queries of a node

LInit == /\ out = Empty /\ inn = Empty /\ phase = "init"
         /\ prog = [t \in Threads |-> <<>>] /\ ci = [t \in Threads |-> 1]
         /\ pc = [t \in Threads |-> "start"] /\ reg = [t \in Threads |-> NoReg]
         /\ rets = [t \in Threads |-> <<>>] /\ status = [t \in Threads |-> "run"]
         /\ poisoned = {} /\ g0 = [out |-> Empty, inn |-> Empty]

\* ---- scenario: initial graph, then the programs ----
NN == Cardinality(Nodes)
Rot(n) == (n % NN) + 1
RECURSIVE RotK(_, _)
RotK(n, k) == IF k = 0 THEN n ELSE RotK(Rot(n), k - 1)
RotCall(c, k) == IF Len(c) = 4 THEN <<c[1], RotK(c[2], k), RotK(c[3], k), c[4]>>
                 ELSE IF Len(c) = 3 THEN <<c[1], RotK(c[2], k), RotK(c[3], k)>>
                 ELSE <<c[1], RotK(c[2], k)>>
RECURSIVE AddRotated(_, _, _, _, _)
AddRotated(o, i, u, v, k) ==
  IF k = NN THEN [out |-> o, inn |-> i]
  ELSE LET r == ConnectOutcome(o, i, RotK(u, k), RotK(v, k), 1) IN AddRotated(r.out, r.inn, u, v, k + 1)

BuildInit == /\ phase = "init"
             /\ IF Rotational
                THEN /\ TotalEdges(out) < MaxInitEdges * NN
                     /\ \E u \in Nodes, v \in Nodes :
                           LET r == AddRotated(out, inn, u, v, 0) IN out' = r.out /\ inn' = r.inn
                ELSE /\ TotalEdges(out) < MaxInitEdges
                     /\ \E u \in Nodes, v \in Nodes, e \in Vals :
                           LET r == ConnectOutcome(out, inn, u, v, e) IN out' = r.out /\ inn' = r.inn
             /\ UNCHANGED lvars

\* programs are chosen in a canonical order of threads (thread ids are
\* interchangeable): thread t's first call is not "smaller" than thread t+1's
CallSeqs == UNION {[1..n -> Calls] : n \in 1..MaxCalls}
Pick == /\ phase = "init"
        /\ IF Rotational
           THEN \E c \in Calls : prog' = [t \in Threads |-> <<RotCall(c, t - 1)>>]
           ELSE \E p \in [Threads -> CallSeqs] : prog' = p
        /\ phase' = "run" /\ g0' = [out |-> out, inn |-> inn]
        /\ UNCHANGED <<out, inn, ci, pc, reg, rets, status, poisoned>>

\* ---- one step of thread t ----
Cur(t) == prog[t][ci[t]]
Finish(t, r) ==     \* the current call returns r
  /\ rets' = [rets EXCEPT ![t] = Append(@, r)]
  /\ IF ci[t] = Len(prog[t])
     THEN status' = [status EXCEPT ![t] = "done"] /\ ci' = ci
     ELSE status' = status /\ ci' = [ci EXCEPT ![t] = @ + 1]
  /\ pc' = [pc EXCEPT ![t] = "start"] /\ reg' = [reg EXCEPT ![t] = NoReg]
Panic(t, lockOf) == \* the thread dies; lockOf = the node whose guard was held (0 = none)
  /\ status' = [status EXCEPT ![t] = "panicked"]
  /\ rets' = [rets EXCEPT ![t] = Append(@, "panic")]
  /\ poisoned' = IF lockOf = 0 THEN poisoned ELSE poisoned \cup {lockOf}
  /\ UNCHANGED <<ci, pc, reg>>
Goto(t, l, r) == pc' = [pc EXCEPT ![t] = l] /\ reg' = [reg EXCEPT ![t] = r] /\ UNCHANGED <<ci, rets, status>>

\* the first-match removals of adjacent.rs
RemoveFirst(s, p) == IF HasPeer(s, p) THEN DelAt(s, FirstIdx(s, p)) ELSE s
FirstVal(s, p) == Val(s[FirstIdx(s, p)])

StepConnect(t, c) ==
  LET u == c[2] v == c[3] e == c[4] IN
  IF pc[t] \in {"start", "push_out"}
  THEN IF u \in poisoned THEN Panic(t, 0) /\ UNCHANGED <<out, inn>>
       ELSE /\ out' = [out EXCEPT ![u] = Append(@, <<v, e>>)] /\ inn' = inn
            /\ Goto(t, "push_in", reg[t]) /\ UNCHANGED poisoned
  ELSE IF v \in poisoned THEN Panic(t, 0) /\ UNCHANGED <<out, inn>>
       ELSE /\ inn' = [inn EXCEPT ![v] = Append(@, <<u, e>>)] /\ out' = out
            /\ Finish(t, "ok") /\ UNCHANGED poisoned

StepTryConnect(t, c) ==
  LET u == c[2] v == c[3] IN
  IF pc[t] = "start"
  THEN IF u \in poisoned THEN Panic(t, 0) /\ UNCHANGED <<out, inn>>
       ELSE /\ UNCHANGED <<out, inn, poisoned>>
            /\ IF HasEdgeTo(out, inn, u, v) THEN Finish(t, "EdgeAlreadyExists")
               ELSE Goto(t, "push_out", reg[t])
  ELSE StepConnect(t, c)

\* directed: out half at u, then in half at k.  undirected: the half received
\* from k first (then k's own half), else the own half (then k's received half)
StepDisconnect(t, c) ==
  LET u == c[2] k == c[3] IN
  CASE pc[t] = "start" ->
         IF u \in poisoned THEN Panic(t, 0) /\ UNCHANGED <<out, inn>>
         ELSE /\ UNCHANGED <<out, inn, poisoned>>
              /\ IF HasEdgeTo(out, inn, u, k) THEN Goto(t, "first", reg[t]) ELSE Finish(t, "EdgeNotFound")
    [] pc[t] = "first" ->
         IF u \in poisoned THEN Panic(t, 0) /\ UNCHANGED <<out, inn>>
         ELSE IF Directed
         THEN IF HasPeer(out[u], k)
              THEN /\ out' = [out EXCEPT ![u] = RemoveFirst(@, k)] /\ inn' = inn /\ UNCHANGED poisoned
                   /\ Goto(t, "second_in", [reg[t] EXCEPT !.val = FirstVal(out[u], k)])
              ELSE UNCHANGED <<out, inn, poisoned>> /\ Finish(t, "EdgeNotFound")
         ELSE IF HasPeer(inn[u], k)
              THEN /\ inn' = [inn EXCEPT ![u] = RemoveFirst(@, k)] /\ out' = out /\ UNCHANGED poisoned
                   /\ Goto(t, "second_out", [reg[t] EXCEPT !.val = FirstVal(inn[u], k)])
              ELSE \* `remove_outbound(..)?` is a second write lock on u in the code
                   UNCHANGED <<out, inn, poisoned>> /\ Goto(t, "first_own", reg[t])
    [] pc[t] = "first_own" ->
         IF u \in poisoned THEN Panic(t, 0) /\ UNCHANGED <<out, inn>>
         ELSE IF HasPeer(out[u], k)
              THEN /\ out' = [out EXCEPT ![u] = RemoveFirst(@, k)] /\ inn' = inn /\ UNCHANGED poisoned
                   /\ Goto(t, "second_in", [reg[t] EXCEPT !.val = FirstVal(out[u], k)])
              ELSE UNCHANGED <<out, inn, poisoned>> /\ Finish(t, "EdgeNotFound")
    [] pc[t] = "second_in" ->      \* at k: remove the in-half coming from u
         IF k \in poisoned THEN Panic(t, 0) /\ UNCHANGED <<out, inn>>
         ELSE IF HasPeer(inn[k], u)
              THEN /\ inn' = [inn EXCEPT ![k] = RemoveFirst(@, u)] /\ out' = out /\ UNCHANGED poisoned
                   /\ Finish(t, reg[t].val)
              ELSE UNCHANGED <<out, inn, poisoned>> /\ Finish(t, "EdgeNotFound")
    [] pc[t] = "second_out" ->     \* at k: remove k's own half towards u
         IF k \in poisoned THEN Panic(t, 0) /\ UNCHANGED <<out, inn>>
         ELSE IF HasPeer(out[k], u)
              THEN /\ out' = [out EXCEPT ![k] = RemoveFirst(@, u)] /\ inn' = inn /\ UNCHANGED poisoned
                   /\ Finish(t, reg[t].val)
              ELSE UNCHANGED <<out, inn, poisoned>> /\ Finish(t, "EdgeNotFound")

\* isolate walks its own lists with a positional cursor (out then in; the
\* undirected iterator walks out \o inn in one loop)
OwnList(u, which) == IF Directed THEN (IF which = "A" THEN out[u] ELSE inn[u]) ELSE out[u] \o inn[u]
StepIsolate(t, c) ==
  LET u == c[2] IN
  CASE pc[t] \in {"start", "readA", "readB"} ->
         LET which == IF pc[t] = "readB" THEN "B" ELSE "A"
             lst == OwnList(u, which)
             p == reg[t].pos + 1 IN
         IF u \in poisoned THEN Panic(t, 0) /\ UNCHANGED <<out, inn>>
         ELSE /\ UNCHANGED <<out, inn, poisoned>>
              /\ IF p <= Len(lst)
                 THEN Goto(t, IF which = "A" THEN "fixA" ELSE "fixB", [reg[t] EXCEPT !.pos = p, !.peer = Peer(lst[p])])
                 ELSE IF which = "A" /\ Directed THEN Goto(t, "readB", NoReg)
                 ELSE Goto(t, "clear_out", NoReg)
    [] pc[t] = "fixA" ->       \* directed: remove the in-half at the target; undirected: in-half, else out-half
         LET v == reg[t].peer IN
         IF v \in poisoned THEN Panic(t, 0) /\ UNCHANGED <<out, inn>>
         ELSE IF HasPeer(inn[v], u)
              THEN /\ inn' = [inn EXCEPT ![v] = RemoveFirst(@, u)] /\ out' = out /\ UNCHANGED poisoned
                   /\ Goto(t, "readA", reg[t])
              ELSE IF Directed THEN Panic(t, v) /\ UNCHANGED <<out, inn>>
                   ELSE UNCHANGED <<out, inn, poisoned>> /\ Goto(t, "fixA2", reg[t])
    [] pc[t] = "fixA2" ->      \* undirected only: second write lock, remove the peer's own half
         LET v == reg[t].peer IN
         IF v \in poisoned THEN Panic(t, 0) /\ UNCHANGED <<out, inn>>
         ELSE IF HasPeer(out[v], u)
              THEN /\ out' = [out EXCEPT ![v] = RemoveFirst(@, u)] /\ inn' = inn /\ UNCHANGED poisoned
                   /\ Goto(t, "readA", reg[t])
              ELSE Panic(t, v) /\ UNCHANGED <<out, inn>>
    [] pc[t] = "fixB" ->       \* directed: remove the out-half at the source
         LET v == reg[t].peer IN
         IF v \in poisoned THEN Panic(t, 0) /\ UNCHANGED <<out, inn>>
         ELSE IF HasPeer(out[v], u)
              THEN /\ out' = [out EXCEPT ![v] = RemoveFirst(@, u)] /\ inn' = inn /\ UNCHANGED poisoned
                   /\ Goto(t, "readB", reg[t])
              ELSE Panic(t, v) /\ UNCHANGED <<out, inn>>
    [] pc[t] = "clear_out" ->
         IF u \in poisoned THEN Panic(t, 0) /\ UNCHANGED <<out, inn>>
         ELSE out' = [out EXCEPT ![u] = <<>>] /\ inn' = inn /\ UNCHANGED poisoned /\ Goto(t, "clear_in", NoReg)
    [] pc[t] = "clear_in" ->
         IF u \in poisoned THEN Panic(t, 0) /\ UNCHANGED <<out, inn>>
         ELSE inn' = [inn EXCEPT ![u] = <<>>] /\ out' = out /\ UNCHANGED poisoned /\ Finish(t, "ok")

StepScan(t, c) ==
  LET u == c[2]
      lst == IF Directed THEN out[u] ELSE out[u] \o inn[u]
      p == reg[t].pos + 1 IN
  IF u \in poisoned THEN Panic(t, 0) /\ UNCHANGED <<out, inn>>
  ELSE /\ UNCHANGED <<out, inn, poisoned>>
       /\ IF p <= Len(lst) THEN Goto(t, "scan", [reg[t] EXCEPT !.pos = p]) ELSE Finish(t, "scanned")

\* read-only queries: one read-locked look at the node (the number of separate
\* read sections does not change any outcome)
StepDegree(t, c) ==
  IF c[2] \in poisoned THEN Panic(t, 0) /\ UNCHANGED <<out, inn>>
  ELSE UNCHANGED <<out, inn, poisoned>> /\ Finish(t, "degree")

Step(t) ==
  /\ phase = "run" /\ status[t] = "run"
  /\ LET c == Cur(t) IN
     CASE c[1] = "connect"     -> StepConnect(t, c)
       [] c[1] = "try_connect" -> StepTryConnect(t, c)
       [] c[1] = "disconnect"  -> StepDisconnect(t, c)
       [] c[1] = "isolate"     -> StepIsolate(t, c)
       [] c[1] = "scan"        -> StepScan(t, c)
       [] c[1] = "degree"      -> StepDegree(t, c)
  /\ UNCHANGED <<prog, phase, g0>>

AllStopped == phase = "run" /\ \A t \in Threads : status[t] # "run"

-----------------------------------------------------------------------------
(* property layer: linearizability of a finished execution *)
AllReturned == \A t \in Threads : status[t] = "done"
Linearizable == IsLinearizable(g0.out, g0.inn, prog, rets, out, inn)

Verdict ==
  (IF \E t \in Threads : status[t] = "panicked" THEN <<"panic">> ELSE <<>>)
  \o (IF poisoned # {} THEN <<"poisoned-lock">> ELSE <<>>)
  \o (IF AllReturned /\ ~Linearizable THEN <<"not-linearizable">> ELSE <<>>)
  \o (IF AllReturned /\ ~Mirror(out, inn) THEN <<"mirror-broken-at-quiescence">> ELSE <<>>)
=============================================================================
