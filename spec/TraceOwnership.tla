--------------------------- MODULE TraceOwnership ---------------------------
(* impl -> spec for C19: a seeded random history of ownership actions on the  *)
(* real nodes (drop-counting payloads); after every action the harness logs   *)
(* the set of objects all of whose payload instances have been dropped.  TLC  *)
(* carries the model state through the same actions and gives a verdict per   *)
(* event: the action was enabled (else the DRIVER is wrong), nothing was      *)
(* released that a strong holder still mentions, nothing leaked, no payload   *)
(* was dropped twice; after "dropall" everything is released.                 *)
EXTENDS Ownership, Json, IOUtils

VARIABLES l, nbad, rel      \* rel: the released set the implementation showed after the previous event
Rec == ndJsonDeserialize(IOEnv.TRACE)
tvars == <<out, inn, h, inC, res, l, nbad, rel>>
TInit == OInit /\ l = 1 /\ nbad = 0 /\ rel = {}
\* the 'live nodes' precondition judged on what is REALLY alive (a Path may keep intermediate nodes
\* alive that the model's minimal reading of it does not mention)
CleanObs == \A n \in Nodes \ rel : \A k \in 1..Len(out[n] \o inn[n]) : (out[n] \o inn[n])[k][1] \notin rel

When(c, s) == IF c THEN <<s>> ELSE <<>>
SeqSetOf(s) == {s[k] : k \in 1..Len(s)}
Wide(s) == [s EXCEPT !.res = [j \in 1..Len(s.res) |->
               IF s.res[j].kind = "path" THEN [s.res[j] EXCEPT !.objs = Reach([out |-> s.out, inn |-> s.inn, dir |-> "out", rej |-> {}], s.res[j].root)]
               ELSE s.res[j]]]

TNext ==
  /\ l <= Len(Rec)
  /\ l' = l + 1
  /\ LET ev == Rec[l] IN
     IF ev.ev = "reset"
     THEN /\ out' = Empty /\ inn' = Empty /\ h' = [n \in Nodes |-> 1] /\ inC' = {} /\ res' = <<>> /\ nbad' = nbad /\ rel' = {}
     ELSE IF ev.ev = "dropall"
     THEN LET v == When(SeqSetOf(ev.released) # Nodes, "leak-after-everything-was-dropped") \o When(ev.double # <<>>, "double-release") IN
          /\ IF v = <<>> THEN TRUE ELSE PrintT(<<"REJECT", l, v>>)
          /\ nbad' = IF v = <<>> THEN nbad ELSE nbad + 1
          /\ UNCHANGED <<out, inn, h, inC, res, rel>>
     ELSE LET a == ev.a
              en == EnabledWith(a, CleanObs)
              s == IF en THEN After(a) ELSE [out |-> out, inn |-> inn, h |-> h, inC |-> inC, res |-> res]
              obs == SeqSetOf(ev.released)
              v == IF ev.rt = "fail" THEN <<"panic-in-ownership-action">>
                   ELSE When(~en, "driver-error:action-not-enabled-in-the-model")
                     \o When(en /\ ~(obs \subseteq ReleasedIn(s)), "released-while-a-strong-holder-exists")
                     \o When(en /\ ~(ReleasedIn(Wide(s)) \subseteq obs), "not-released-although-no-holder-is-left")
                     \o When(ev.double # <<>>, "double-release") IN
          /\ IF v = <<>> THEN TRUE ELSE PrintT(<<"REJECT", l, v>>)
          /\ nbad' = IF v = <<>> THEN nbad ELSE nbad + 1
          /\ out' = s.out /\ inn' = s.inn /\ h' = s.h /\ inC' = s.inC /\ res' = s.res
          /\ rel' = IF ev.rt = "fail" THEN rel ELSE obs

TSpec == TInit /\ [][TNext]_tvars
Consumed == (l = Len(Rec) + 1) => PrintT(<<"CONSUMED", Len(Rec), "rejected", nbad>>)
AllConsumed == TLCGet("stats").diameter = Len(Rec) + 1
=============================================================================
