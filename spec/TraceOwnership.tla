--------------------------- MODULE TraceOwnership ---------------------------
(* impl -> spec for C19: a seeded random history of ownership actions on the  *)
(* real nodes (drop-counting payloads); after every action the harness logs   *)
(* the set of objects all of whose payload instances have been dropped.  TLC  *)
(* carries the model state through the same actions and gives a verdict per   *)
(* event: the action was enabled (else the DRIVER is wrong), nothing was      *)
(* released that a strong holder still mentions, nothing leaked, no payload   *)
(* was dropped twice; after "dropall" everything is released.                 *)
EXTENDS Ownership, Json, IOUtils

VARIABLES l, nbad
Rec == ndJsonDeserialize(IOEnv.TRACE)
tvars == <<out, inn, h, inC, res, l, nbad>>
TInit == OInit /\ l = 1 /\ nbad = 0

When(c, s) == IF c THEN <<s>> ELSE <<>>
SeqSetOf(s) == {s[k] : k \in 1..Len(s)}
Wide(s) == [s EXCEPT !.res = [j \in 1..Len(s.res) |->
               IF s.res[j].kind = "path" THEN [s.res[j] EXCEPT !.objs = Reach([out |-> s.out, inn |-> s.inn, dir |-> "out", rej |-> {}], s.res[j].root)]
               ELSE s.res[j]]]

TNext ==
  /\ l <= Len(Rec)
  /\ l' = l + 1
  /\ LET ev == Rec[l] IN
     IF ev.ev = "reset"
     THEN /\ out' = Empty /\ inn' = Empty /\ h' = [n \in Nodes |-> 1] /\ inC' = {} /\ res' = <<>> /\ nbad' = nbad
     ELSE IF ev.ev = "dropall"
     THEN LET v == When(SeqSetOf(ev.released) # Nodes, "leak-after-everything-was-dropped") \o When(ev.double # <<>>, "double-release") IN
          /\ IF v = <<>> THEN TRUE ELSE PrintT(<<"REJECT", l, v>>)
          /\ nbad' = IF v = <<>> THEN nbad ELSE nbad + 1
          /\ UNCHANGED <<out, inn, h, inC, res>>
     ELSE LET a == ev.a
              en == Enabled(a)
              s == IF en THEN After(a) ELSE [out |-> out, inn |-> inn, h |-> h, inC |-> inC, res |-> res]
              obs == SeqSetOf(ev.released)
              v == IF ev.rt = "fail" THEN <<"panic-in-ownership-action">>
                   ELSE When(~en, "driver-error:action-not-enabled-in-the-model")
                     \o When(en /\ ~(obs \subseteq ReleasedIn(s)), "released-while-a-strong-holder-exists")
                     \o When(en /\ ~(ReleasedIn(Wide(s)) \subseteq obs), "not-released-although-no-holder-is-left")
                     \o When(ev.double # <<>>, "double-release") IN
          /\ IF v = <<>> THEN TRUE ELSE PrintT(<<"REJECT", l, v>>)
          /\ nbad' = IF v = <<>> THEN nbad ELSE nbad + 1
          /\ out' = s.out /\ inn' = s.inn /\ h' = s.h /\ inC' = s.inC /\ res' = s.res

TSpec == TInit /\ [][TNext]_tvars
Consumed == (l = Len(Rec) + 1) => PrintT(<<"CONSUMED", Len(Rec), "rejected", nbad>>)
AllConsumed == TLCGet("stats").diameter = Len(Rec) + 1
=============================================================================
