------------------------------ MODULE Linearize ------------------------------
(* C17 property layer: a finished concurrent execution is linearizable when    *)
(* the returns of its mutating calls and its final graph are those of some     *)
(* sequential order of the same calls that respects each thread's own order,   *)
(* under the Adjacency contract.                                               *)
EXTENDS Adjacency, TLC

IsMutating(c) == c[1] \in {"connect", "try_connect", "disconnect", "isolate"}

RECURSIVE LinSearch(_, _, _, _, _, _, _)
\* (o, i): sequential state so far; idx: next call per thread; P: programs;
\* R: observed returns; (fo, fi): observed final graph; T: thread ids
LinSearch(o, i, idx, P, R, fo, fi) ==
  LET T == DOMAIN P IN
  IF \A t \in T : idx[t] > Len(P[t]) THEN o = fo /\ i = fi
  ELSE \E t \in {x \in T : idx[x] <= Len(P[x])} :
          LET c == P[t][idx[t]]
              nx == [idx EXCEPT ![t] = @ + 1] IN
          IF ~IsMutating(c) THEN LinSearch(o, i, nx, P, R, fo, fi)
          ELSE \E r \in Contract(c, o, i) :
                  ToString(r.res) = ToString(R[t][idx[t]]) /\ LinSearch(r.out, r.inn, nx, P, R, fo, fi)

IsLinearizable(o0, i0, P, R, fo, fi) == LinSearch(o0, i0, [t \in DOMAIN P |-> 1], P, R, fo, fi)
=============================================================================
