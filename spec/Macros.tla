-------------------------------- MODULE Macros --------------------------------
(***************************************************************************)
(* C14: the construction macros build exactly the graph they denote.       *)
(*                                                                         *)
(* An invocation (of digraph!, ungraph!, sync_digraph! or sync_ungraph!,   *)
(* in one of the four type-signature forms) is an ordered list of node     *)
(* entries                                                                 *)
(*      [k |-> key, has |-> edge list present?, es |-> Seq(target key)]     *)
(* Node values and edge values are fixed functions of the position         *)
(* (NodeVal, EdgeVal), rendered by the generator as varying expressions;   *)
(* forms without a node / edge value type carry the unit value 0.          *)
(*                                                                         *)
(* Denote(inv) is the fold the macro performs: collect (source, target     *)
(* [, value]) in listing order, insert the nodes in listing order, then    *)
(* connect every collected edge in order - or panic naming the first       *)
(* target that is not a listed key.                                        *)
(***************************************************************************)
EXTENDS Adjacency, TLC

CONSTANTS ListKeys,     \* keys that may be listed as nodes (subset of Nodes)
          MaxEntries, MaxEdgesFirst, MaxEdgesRest

NodeVal(form, k) == IF form \in {2, 4} THEN 100 + k ELSE 0
\* b-th edge of the a-th entry, towards t.  Value mode "pos": every listed edge has its own
\* value; "tgt": repeated edges to the same target carry EQUAL values (exact duplicates)
EdgeVal(form, vm, a, b, t) == IF form \in {3, 4} THEN (IF vm = "tgt" THEN 10 * a + 5 + t ELSE 10 * a + b) ELSE 0
HasRepeat(inv) == \E a \in 1..Len(inv) : \E b, c \in 1..Len(inv[a].es) : b # c /\ inv[a].es[b] = inv[a].es[c]

Listed(inv) == {inv[a].k : a \in 1..Len(inv)}

RECURSIVE Collect(_, _, _, _)
\* the edges vector: <<source, target, value>> in listing order
Collect(inv, form, vm, a) ==
  IF a > Len(inv) THEN <<>>
  ELSE [b \in 1..Len(inv[a].es) |-> <<inv[a].k, inv[a].es[b], EdgeVal(form, vm, a, b, inv[a].es[b])>>] \o Collect(inv, form, vm, a + 1)

RECURSIVE ConnectAll(_, _, _, _, _)
ConnectAll(es, j, listed, o, i) ==
  IF j > Len(es) THEN [panic |-> 0, out |-> o, inn |-> i]
  ELSE IF es[j][2] \notin listed THEN [panic |-> es[j][2], out |-> o, inn |-> i]
  ELSE ConnectAll(es, j + 1, listed,
                  [o EXCEPT ![es[j][1]] = Append(@, <<es[j][2], es[j][3]>>)],
                  [i EXCEPT ![es[j][2]] = Append(@, <<es[j][1], es[j][3]>>)])

\* the result: [panic = 0, keys, vals, out, inn]  or  [panic = the unlisted key named]
Denote(inv, form, vm) ==
  LET es == Collect(inv, form, vm, 1)
      r == ConnectAll(es, 1, Listed(inv), [n \in Nodes |-> <<>>], [n \in Nodes |-> <<>>]) IN
  IF r.panic # 0 THEN [panic |-> r.panic]
  ELSE [panic |-> 0, keys |-> Listed(inv), vals |-> [n \in Nodes |-> IF n \in Listed(inv) THEN NodeVal(form, n) ELSE 0],
        out |-> r.out, inn |-> r.inn]

\* ---- property layer (C14) ----
UnlistedNamed(inv) == UNION {{inv[a].es[b] : b \in 1..Len(inv[a].es)} : a \in 1..Len(inv)} \ Listed(inv)
IsSubseq(s, t) == LET RECURSIVE M(_, _)
                      M(a, b) == IF a > Len(s) THEN TRUE ELSE IF b > Len(t) THEN FALSE
                                 ELSE IF s[a] = t[b] THEN M(a + 1, b + 1) ELSE M(a, b + 1)
                  IN  M(1, 1)
ListingOf(inv, form, vm, a) == [b \in 1..Len(inv[a].es) |-> <<inv[a].es[b], EdgeVal(form, vm, a, b, inv[a].es[b])>>]
BagSeqEq(s, t) == Len(s) = Len(t) /\ \A x \in 1..Len(s) : Cardinality({y \in 1..Len(s) : s[y] = s[x]}) = Cardinality({y \in 1..Len(t) : t[y] = s[x]})
\* obs: [panic (0 = none, else the key named in the message), keys, vals, out, inn]
MacroOK(inv, form, vm, obs) ==
  IF UnlistedNamed(inv) # {} THEN obs.panic \in UnlistedNamed(inv)
  ELSE /\ obs.panic = 0
       /\ obs.keys = Listed(inv)
       /\ \A n \in Listed(inv) : obs.vals[n] = NodeVal(form, n)
       \* exactly the listed edges with the listed values (as a bag of <<source, target, value>>)
       /\ BagSeqEq(Collect(inv, form, vm, 1),
                   LET RECURSIVE All(_)
                       All(S) == IF S = {} THEN <<>> ELSE LET n == CHOOSE x \in S : TRUE IN
                                    [b \in 1..Len(obs.out[n]) |-> <<n, obs.out[n][b][1], obs.out[n][b][2]>>] \o All(S \ {n})
                   IN All(Nodes))
       /\ Mirror(obs.out, obs.inn)
       \* each node's edges in listed order
       /\ \A a \in 1..Len(inv) :
             IF Directed THEN obs.out[inv[a].k] = ListingOf(inv, form, vm, a)
             ELSE IsSubseq(ListingOf(inv, form, vm, a), obs.out[inv[a].k] \o obs.inn[inv[a].k])
=============================================================================
