------------------------------ MODULE MC_Macros ------------------------------
(* enumerates every invocation within the bounds x the four forms, checks that *)
(* the fold satisfies the property layer, and emits invocation + denotation    *)
EXTENDS Macros, Json, SequencesExt, IOUtils

VARIABLES inv, form, phase, l, nbad
mvars == <<out, inn, inv, form, phase, l, nbad>>

MInit == out = Empty /\ inn = Empty /\ inv = <<>> /\ form = 1 /\ phase = "grow" /\ l = 1 /\ nbad = 0

EdgeLists(maxlen) == UNION {[1..len -> Nodes] : len \in 0..maxlen}
Grow == /\ phase = "grow" /\ Len(inv) < MaxEntries
        /\ \E k \in ListKeys \ Listed(inv), has \in BOOLEAN :
           \E es \in (IF has THEN EdgeLists(IF Len(inv) = 0 THEN MaxEdgesFirst ELSE MaxEdgesRest) ELSE {<<>>}) :
              inv' = Append(inv, [k |-> k, has |-> has, es |-> es])
        /\ UNCHANGED <<out, inn, form, phase, l, nbad>>

Emit == /\ phase = "grow"
        /\ \E f \in 1..4 : \E vm \in (IF f \in {3, 4} /\ HasRepeat(inv) THEN {"pos", "tgt"} ELSE {"pos"}) :
              /\ form' = f
              /\ PrintT(ToJson([inv |-> inv, form |-> f, vm |-> vm, den |-> LET d == Denote(inv, f, vm) IN
                                   IF d.panic # 0 THEN [panic |-> d.panic]
                                   ELSE [panic |-> 0, keys |-> SetToSeq(d.keys), vals |-> d.vals, out |-> d.out, inn |-> d.inn]]))
        /\ phase' = "emitted" /\ UNCHANGED <<out, inn, inv, l, nbad>>

MNext == Grow \/ Emit
MSpec == MInit /\ [][MNext]_mvars

\* the fold the macros perform denotes what C14 says, for every form
FoldOK == phase = "grow" => \A f \in 1..4 : \A vm \in {"pos", "tgt"} : MacroOK(inv, f, vm, Denote(inv, f, vm))

\* ---- stage 2: verdicts for observed results that differ from the denotation ----
Rec == ndJsonDeserialize(IOEnv.TRACE)
ToInv(x) == [a \in 1..Len(x) |-> [k |-> x[a].k, has |-> x[a].has, es |-> x[a].es]]
ToObs(o) == IF o.panic # 0 THEN [panic |-> o.panic]
            ELSE [panic |-> 0, keys |-> {o.keys[a] : a \in 1..Len(o.keys)}, vals |-> [n \in Nodes |-> o.vals[n]],
                  out |-> [n \in Nodes |-> o.out[n]], inn |-> [n \in Nodes |-> o.inn[n]]]
TInit == out = Empty /\ inn = Empty /\ inv = <<>> /\ form = 1 /\ phase = "trace" /\ l = 1 /\ nbad = 0
TNext == /\ l <= Len(Rec) /\ l' = l + 1
         /\ LET ev == Rec[l]
                bad == IF ev.rt = "fail" THEN TRUE ELSE ~MacroOK(ToInv(ev.inv), ev.form, ev.vm, ToObs(ev.obs)) IN
            /\ IF bad THEN PrintT(<<"REJECT", l, <<IF ev.rt = "fail" THEN "macro-failed-unexpectedly" ELSE "result-is-not-the-denoted-graph">>>>) ELSE TRUE
            /\ nbad' = IF bad THEN nbad + 1 ELSE nbad
         /\ UNCHANGED <<out, inn, inv, form, phase>>
TSpec == TInit /\ [][TNext]_mvars
Consumed == (phase = "trace" /\ l = Len(Rec) + 1) => PrintT(<<"CONSUMED", Len(Rec), "rejected", nbad>>)
AllConsumed == TLCGet("stats").diameter = Len(Rec) + 1
=============================================================================
