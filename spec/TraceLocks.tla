----------------------------- MODULE TraceLocks -----------------------------
(* impl -> spec for C17: one event = one finished (or stuck) execution of a   *)
(* concurrent scenario on the real sync nodes under the deterministic         *)
(* scheduler: initial graph, per-thread call lists, per-thread returns        *)
(* ("panic" = the call panicked, "blocked" = the thread could never proceed), *)
(* final graph (or "poisoned") and the deadlock flag.  TLC prints the verdict *)
(* of the property layer for every execution.                                 *)
EXTENDS Linearize, Json, IOUtils

VARIABLES l, nbad
Rec == ndJsonDeserialize(IOEnv.TRACE)
tvars == <<out, inn, l, nbad>>
TInit == out = Empty /\ inn = Empty /\ l = 1 /\ nbad = 0

When(c, s) == IF c THEN <<s>> ELSE <<>>
AsFun(s) == [n \in Nodes |-> s[n]]
Has(ev, x) == \E t \in 1..Len(ev.rets) : \E k \in 1..Len(ev.rets[t]) : ToString(ev.rets[t][k]) = ToString(x)
Complete(ev) == \A t \in 1..Len(ev.prog) : Len(ev.rets[t]) = Len(ev.prog[t])

Reasons(ev) ==
     When(ev.deadlock \/ Has(ev, "blocked"), "deadlock")
  \o When(Has(ev, "panic"), "panic")
  \o When(ev.poisoned, "poisoned-lock")
  \o When(~ev.deadlock /\ ~ev.poisoned /\ ~Has(ev, "panic") /\ ~Has(ev, "blocked") /\ Complete(ev)
          /\ ~IsLinearizable(AsFun(ev.g0.out), AsFun(ev.g0.inn), ev.prog, ev.rets, AsFun(ev.final.out), AsFun(ev.final.inn)),
          "not-linearizable")
  \o When(~ev.poisoned /\ ~ev.deadlock /\ ~Mirror(AsFun(ev.final.out), AsFun(ev.final.inn)), "mirror-broken-at-quiescence")

\* a free-running round whose only mutators are connects: every call returned, nothing
\* panicked or was poisoned, and the final graph holds exactly the performed connects, mirrored
StressReasons(ev) ==
     When(ev.hang, "deadlock")
  \o When(ev.panic, "panic")
  \o When(ev.poisoned, "poisoned-lock")
  \o When(ev.readable /\ ~Mirror(AsFun(ev.final.out), AsFun(ev.final.inn)), "mirror-broken-at-quiescence")
  \o When(ev.readable /\ \E u \in Nodes, v \in Nodes :
            CountOf(AsFun(ev.final.out)[u], v, 1) # Cardinality({k \in 1..Len(ev.connects) : ev.connects[k] = <<u, v>>}),
          "not-linearizable")

TNext ==
  /\ l <= Len(Rec)
  /\ l' = l + 1
  /\ LET v == IF Rec[l].ev = "stress" THEN StressReasons(Rec[l]) ELSE Reasons(Rec[l]) IN
     /\ IF v = <<>> THEN TRUE ELSE PrintT(<<"REJECT", l, v>>)
     /\ nbad' = IF v = <<>> THEN nbad ELSE nbad + 1
  /\ UNCHANGED <<out, inn>>

TSpec == TInit /\ [][TNext]_tvars
Consumed == (l = Len(Rec) + 1) => PrintT(<<"CONSUMED", Len(Rec), "rejected", nbad>>)
AllConsumed == TLCGet("stats").diameter = Len(Rec) + 1
=============================================================================
