---------------------------- MODULE MC_Container ----------------------------
(* All container states (member sets incl. a duplicate-key object) x small   *)
(* adjacency states; for each, the views and the outcome of every operation  *)
(* are emitted as one case.                                                  *)
EXTENDS Container, TLC, Json, SequencesExt

CONSTANT MaxEdges
VARIABLE mem
cvars == <<out, inn, mem>>

CInit == out = Empty /\ inn = Empty /\ mem = [k \in Keys |-> 0]

ViewsJson(m, o_, i_) ==
  LET v == Views(m, o_, i_) IN
  [get |-> v.get, contains |-> v.contains, len |-> v.len, is_empty |-> v.is_empty,
   to_vec |-> SetToSeq(v.to_vec), iter |-> SetToSeq(v.iter),
   roots |-> SetToSeq(v.roots), leaves |-> SetToSeq(v.leaves), orphans |-> SetToSeq(v.orphans)]

OpSeq == SetToSeq(COps)
CaseRec ==
  [mem |-> mem, out |-> out, inn |-> inn, views |-> ViewsJson(mem, out, inn),
   ops |-> [k \in 1..Len(OpSeq) |->
              LET r == CStep(OpSeq[k], mem, out, inn) IN
              [op |-> OpSeq[k], res |-> r.res, mem |-> r.mem, out |-> r.out, inn |-> r.inn,
               views |-> ViewsJson(r.mem, r.out, r.inn)]]]

CNext == /\ PrintT(ToJson(CaseRec))
         /\ \E op \in COps :
               LET r == CStep(op, mem, out, inn) IN
               /\ TotalEdges(r.out) <= MaxEdges
               /\ mem' = r.mem /\ out' = r.out /\ inn' = r.inn
CSpec == CInit /\ [][CNext]_cvars

\* map laws (the views are those of a key -> node map)
MapLaws ==
  LET v == Views(mem, out, inn) IN
  /\ v.len = Cardinality(v.to_vec) /\ v.is_empty = (v.len = 0)
  /\ \A k \in Keys : v.contains[k] = (v.get[k] # 0)
  /\ \A k \in Keys : v.get[k] # 0 => KeyOf(v.get[k]) = k
  /\ v.orphans = v.roots \cap v.leaves
  /\ \A op \in COps : op[1] = "insert" =>
        LET r == CStep(op, mem, out, inn) IN
        (~r.res) => (r.mem = mem /\ mem[KeyOf(op[2])] # 0)
=============================================================================
