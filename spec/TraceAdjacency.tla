--------------------------- MODULE TraceAdjacency ---------------------------
(* impl -> spec: validates a history recorded from the real code (one event  *)
(* per public call, full projected state logged after the call) against the  *)
(* contract layer of Adjacency.  Every event gets its own verdict: the step  *)
(* from the previous logged state must be an outcome Contract allows, the    *)
(* logged state must satisfy Mirror / Symmetric, and the logged observers    *)
(* must be the ones the spec derives from that state.  After a rejected      *)
(* event the spec re-synchronises on the logged state, so the REST of the    *)
(* trace is still checked.                                                   *)
EXTENDS Adjacency, TLC, Json, IOUtils

VARIABLES l, nbad

Rec == ndJsonDeserialize(IOEnv.TRACE)

tvars == <<out, inn, l, nbad>>

TInit == out = Empty /\ inn = Empty /\ l = 1 /\ nbad = 0

Complete(ev) == {"out", "inn", "op", "res"} \subseteq DOMAIN ev

Verdict(ev) ==
  IF ~Complete(ev) THEN <<"incomplete-event (panic / deadlock inside the call or an observer)">>
  ELSE
  LET c1 == [out |-> ev.out, inn |-> ev.inn, res |-> ev.res] \in Contract(ev.op, out, inn)
      c2 == Mirror(ev.out, ev.inn)
      c3 == Directed \/ Symmetric(ev.out, ev.inn)
      c4 == ObserversAgree(ev.out, ev.inn)
      c5 == "obs" \notin DOMAIN ev \/ \A n \in Nodes : ev.obs[n] = Obs(ev.out, ev.inn, n)
  IN  (IF c1 THEN <<>> ELSE <<"step-not-allowed-by-contract">>)
   \o (IF c2 THEN <<>> ELSE <<"mirror-broken">>)
   \o (IF c3 THEN <<>> ELSE <<"symmetry-broken">>)
   \o (IF c4 THEN <<>> ELSE <<"observers-disagree">>)
   \o (IF c5 THEN <<>> ELSE <<"observer-values-wrong">>)

TNext ==
  /\ l <= Len(Rec)
  /\ l' = l + 1
  /\ LET ev == Rec[l] IN
     IF ev.ev = "reset"
     THEN out' = Empty /\ inn' = Empty /\ nbad' = nbad
     ELSE IF ev.ev = "state"     \* adjudication of a single replayed case: adopt its pre-state
     THEN out' = [n \in Nodes |-> ev.out[n]] /\ inn' = [n \in Nodes |-> ev.inn[n]] /\ nbad' = nbad
     ELSE LET v == Verdict(ev) IN
          /\ IF v = <<>> THEN TRUE ELSE PrintT(<<"REJECT", l, v>>)
          /\ nbad' = IF v = <<>> THEN nbad ELSE nbad + 1
          /\ IF {"out", "inn"} \subseteq DOMAIN ev
             THEN out' = [n \in Nodes |-> ev.out[n]] /\ inn' = [n \in Nodes |-> ev.inn[n]]
             ELSE out' = out /\ inn' = inn

TSpec == TInit /\ [][TNext]_tvars

\* printed once, in the last state
Consumed == (l = Len(Rec) + 1) => PrintT(<<"CONSUMED", Len(Rec), "rejected", nbad>>)
\* every event of the trace was consumed
AllConsumed == TLCGet("stats").diameter = Len(Rec) + 1
=============================================================================
