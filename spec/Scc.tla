-------------------------------- MODULE Scc --------------------------------
(* Graph::scc() of the directed containers as the code does it (Kosaraju):    *)
(*  pass 1: members in CONTAINER ITERATION ORDER pi; for each member not yet  *)
(*          visited, append its postorder (edges into visited nodes filtered) *)
(*  pass 2: pop the ordering; for each node not yet assigned, its component   *)
(*          is the transposed preorder with edges into assigned nodes filtered*)
(* pi is an arbitrary permutation: TLC explores every container order.        *)
(* Property (C11): the result is the SCC partition, whatever pi is.           *)
EXTENDS DfsOrder, TLC, Json, SequencesExt

CONSTANT MaxEdges

VARIABLES phase,      \* "build" | "emitted" | "pass1" | "pass2" | "done"
          pi, idx, seen, ordering, assigned, comps

sccvars == <<phase, pi, idx, seen, ordering, assigned, comps>>
vars2 == <<out, inn, sccvars>>

SInit == /\ out = Empty /\ inn = Empty /\ phase = "build" /\ pi = <<>> /\ idx = 0
         /\ seen = {} /\ ordering = <<>> /\ assigned = {} /\ comps = <<>>

Build == /\ phase = "build" /\ TotalEdges(out) < MaxEdges
         /\ \E u \in Nodes, v \in Nodes, e \in Vals :
               LET r == ConnectOutcome(out, inn, u, v, e) IN out' = r.out /\ inn' = r.inn
         /\ UNCHANGED sccvars

Perms == {s \in [1..Cardinality(Nodes) -> Nodes] : \A a, b \in 1..Cardinality(Nodes) : a # b => s[a] # s[b]}

StartScc == /\ phase = "build"
            /\ \E p \in Perms : pi' = p
            /\ phase' = "pass1" /\ idx' = 1
            /\ UNCHANGED <<out, inn, seen, ordering, assigned, comps>>

Pass1 == /\ phase = "pass1"
         /\ IF idx > Len(pi) THEN phase' = "pass2" /\ UNCHANGED <<idx, seen, ordering>>
            ELSE LET n == pi[idx] IN
                 /\ idx' = idx + 1 /\ phase' = phase
                 /\ IF n \in seen THEN UNCHANGED <<seen, ordering>>
                    ELSE LET g == [out |-> out, inn |-> inn, dir |-> "out", rej |-> RejectInto(out, inn, "out", seen)]
                             part == PostorderOf(g, n) IN
                         seen' = seen \cup SeqSet(part) /\ ordering' = ordering \o part
         /\ UNCHANGED <<out, inn, pi, assigned, comps>>

Pass2 == /\ phase = "pass2"
         /\ IF ordering = <<>> THEN phase' = "done" /\ UNCHANGED <<ordering, assigned, comps>>
            ELSE LET n == ordering[Len(ordering)] IN
                 /\ ordering' = SubSeq(ordering, 1, Len(ordering) - 1) /\ phase' = phase
                 /\ IF n \in assigned THEN UNCHANGED <<assigned, comps>>
                    ELSE LET g == [out |-> out, inn |-> inn, dir |-> "in", rej |-> RejectInto(out, inn, "in", assigned)]
                             comp == PreorderOf(g, n) IN
                         assigned' = assigned \cup SeqSet(comp) /\ comps' = Append(comps, comp)
         /\ UNCHANGED <<out, inn, pi, idx, seen>>

\* one case per graph: the partition is unique, so it is emitted once per graph
EmitCase == /\ phase = "build"
            /\ PrintT(ToJson([out |-> out, inn |-> inn,
                              sccs |-> SetToSeq({SetToSeq(c) : c \in SCCs(Plain(out, inn), Nodes)})]))
            /\ phase' = "emitted"
            /\ UNCHANGED <<out, inn, pi, idx, seen, ordering, assigned, comps>>

SNext == Build \/ StartScc \/ Pass1 \/ Pass2 \/ EmitCase
SSpec == SInit /\ [][SNext]_vars2

\* C11 on the algorithm layer, for every graph and every container order
SccCorrect == phase = "done" => IsSccPartition(Plain(out, inn), Nodes, comps)
SccIsTheSCCs == phase = "done" => {SeqSet(comps[a]) : a \in 1..Len(comps)} = SCCs(Plain(out, inn), Nodes)
=============================================================================
