--------------------------- MODULE TraceContainer ---------------------------
(* impl -> spec for C18: container histories and DOT exports recorded from   *)
(* the real code; one TLC verdict per event.                                 *)
EXTENDS Container, TLC, Json, IOUtils

VARIABLES mem, l, nbad
Rec == ndJsonDeserialize(IOEnv.TRACE)
tvars == <<out, inn, mem, l, nbad>>
TInit == out = Empty /\ inn = Empty /\ mem = [k \in Keys |-> 0] /\ l = 1 /\ nbad = 0

When(c, s) == IF c THEN <<s>> ELSE <<>>
SeqAsSet(s) == {s[k] : k \in 1..Len(s)}
NoDup(s) == \A a, b \in 1..Len(s) : a # b => s[a] # s[b]
SameSet(s, S) == NoDup(s) /\ SeqAsSet(s) = S

ViewReasons(v, m, o_, i_) ==
  LET w == Views(m, o_, i_) IN
     When(\E k \in Keys : v.get[k] # w.get[k], "get-or-index-wrong")
  \o When(\E k \in Keys : v.contains[k] # w.contains[k], "contains-wrong")
  \o When(v.len # w.len \/ v.is_empty # w.is_empty, "len-or-is_empty-wrong")
  \o When(~SameSet(v.to_vec, w.to_vec), "to_vec-wrong")
  \o When(~SameSet(v.iter, w.iter), "iter-wrong")
  \o When("roots" \in DOMAIN v /\ ~SameSet(v.roots, w.roots), "roots-wrong")
  \o When("leaves" \in DOMAIN v /\ ~SameSet(v.leaves, w.leaves), "leaves-wrong")
  \o When(~SameSet(v.orphans, w.orphans), "orphans-wrong")

OpReasons(ev) ==
  IF ev.rt = "fail" THEN <<"panic-or-deadlock">>
  ELSE LET post == [mem |-> [k \in Keys |-> ev.mem[k]], out |-> [n \in Nodes |-> ev.out[n]],
                    inn |-> [n \in Nodes |-> ev.inn[n]]]
           edgeop == ev.op[1] \notin {"insert", "remove"}
           stepok == IF edgeop
                     THEN post.mem = mem /\ [out |-> post.out, inn |-> post.inn, res |-> ev.res] \in Contract(ev.op, out, inn)
                     ELSE LET r == CStep(ev.op, mem, out, inn) IN
                          r.mem = post.mem /\ r.out = post.out /\ r.inn = post.inn /\ r.res = ev.res
       IN When(~stepok, "step-not-a-map-operation") \o ViewReasons(ev.views, post.mem, post.out, post.inn)

TNext ==
  /\ l <= Len(Rec)
  /\ l' = l + 1
  /\ LET ev == Rec[l] IN
     IF ev.ev = "cstate"
     THEN /\ mem' = [k \in Keys |-> ev.mem[k]] /\ out' = [n \in Nodes |-> ev.out[n]]
          /\ inn' = [n \in Nodes |-> ev.inn[n]] /\ nbad' = nbad
     ELSE IF ev.ev = "dot"
     THEN LET v == IF ev.rt = "fail" THEN <<"panic-or-deadlock">>
                   ELSE When(~DotOK(mem, out, inn, ev.ga, ev.na, ev.ea, ev.dot), "dot-statements-wrong") IN
          /\ IF v = <<>> THEN TRUE ELSE PrintT(<<"REJECT", l, v>>)
          /\ nbad' = IF v = <<>> THEN nbad ELSE nbad + 1
          /\ UNCHANGED <<out, inn, mem>>
     ELSE LET v == OpReasons(ev) IN
          /\ IF v = <<>> THEN TRUE ELSE PrintT(<<"REJECT", l, v>>)
          /\ nbad' = IF v = <<>> THEN nbad ELSE nbad + 1
          /\ IF ev.rt = "fail" THEN UNCHANGED <<out, inn, mem>>
             ELSE /\ mem' = [k \in Keys |-> ev.mem[k]] /\ out' = [n \in Nodes |-> ev.out[n]]
                  /\ inn' = [n \in Nodes |-> ev.inn[n]]

TSpec == TInit /\ [][TNext]_tvars
Consumed == (l = Len(Rec) + 1) => PrintT(<<"CONSUMED", Len(Rec), "rejected", nbad>>)
AllConsumed == TLCGet("stats").diameter = Len(Rec) + 1
=============================================================================
