------------------------------ MODULE Ownership ------------------------------
(***************************************************************************)
(* C19: edges never own nodes.                                             *)
(*                                                                         *)
(* Strong holders of a node object are: handles the program holds (h[o] of *)
(* them), the container (inC), and live result objects (iterated Edge      *)
(* lists, Paths, orderings) which mention a set of objects.  Adjacency     *)
(* entries (out, inn of Adjacency) are WEAK: they never appear in Alive.    *)
(*   Alive(o)    == some strong holder mentions o                          *)
(*   Released(o) == ~Alive(o)     (all objects are created in the initial   *)
(*                                 state, each with one handle)            *)
(* so a cycle, a self-loop or a still-connected node is released exactly   *)
(* when its last strong holder goes away, and a result keeps every node it *)
(* mentions alive and usable.                                              *)
(*                                                                         *)
(* Environment assumption of the property ("live nodes"): operations that  *)
(* read adjacency lists are performed only while no live node has an entry *)
(* pointing at a released node; after that only drops happen.              *)
(***************************************************************************)
EXTENDS SearchProps, TLC

CONSTANTS MaxH,        \* handles per object the program may hold
          MaxRes,      \* live result objects
          CloneObjs,   \* objects whose handle may be cloned (bounds the model)
          InsertObjs   \* objects that may be put into the container

VARIABLES h,           \* [Nodes -> 0..MaxH]
          inC,         \* set of objects in the container (the container itself is one holder)
          res          \* sequence of live results: [kind, root, objs]

ovars == <<out, inn, h, inC, res>>

Mentioned == UNION {res[k].objs : k \in 1..Len(res)}
Alive(o) == h[o] > 0 \/ o \in inC \/ o \in Mentioned
Released == {o \in Nodes : ~Alive(o)}
\* no live node points at a released one
Clean == \A n \in Nodes : Alive(n) =>
            \A k \in 1..Len(out[n] \o inn[n]) : Alive((out[n] \o inn[n])[k][1])

G == [out |-> out, inn |-> inn, dir |-> "out", rej |-> {}]
Peers(n) == {(ListOf(out, inn, "out", n))[k][1] : k \in 1..Len(ListOf(out, inn, "out", n))}

OInit == out = Empty /\ inn = Empty /\ h = [n \in Nodes |-> 1] /\ inC = {} /\ res = <<>>

\* ---- actions: <<name, args..>> so that they can be emitted as cases ----
\* `clean` = the environment assumption at this moment (no live node points at a released one)
EnabledWith(a, clean) ==
  CASE a[1] = "connect"   -> h[a[2]] > 0 /\ h[a[3]] > 0 /\ clean /\ res = <<>>   \* (results are taken on the final graph)
    [] a[1] = "clone"     -> a[2] \in CloneObjs /\ h[a[2]] < MaxH /\ h[a[2]] > 0
    [] a[1] = "drop"      -> h[a[2]] > 0
    [] a[1] = "insert"    -> a[2] \in InsertObjs /\ h[a[2]] > 0 /\ a[2] \notin inC
    [] a[1] = "dropc"     -> inC # {}
    [] a[1] = "edges"     -> h[a[2]] > 0 /\ clean /\ Len(res) < MaxRes      \* collect the iterated edges of a node
    [] a[1] = "order"     -> h[a[2]] > 0 /\ clean /\ Len(res) < MaxRes      \* preorder().search_nodes()
    [] a[1] = "path"      -> h[a[2]] > 0 /\ clean /\ Len(res) < MaxRes /\ a[3] # a[2] /\ a[3] \in Reach(G, a[2])
    [] a[1] = "dropres"   -> a[2] <= Len(res)
    [] a[1] = "lookup"    -> h[a[2]] > 0 /\ clean      \* key look-ups: is_connected / find_* / a refused try_connect

Enabled(a) == EnabledWith(a, Clean)

After(a) ==
  CASE a[1] = "connect"   -> LET r == ConnectOutcome(out, inn, a[2], a[3], 1) IN
                             [out |-> r.out, inn |-> r.inn, h |-> h, inC |-> inC, res |-> res]
    [] a[1] = "clone"     -> [out |-> out, inn |-> inn, h |-> [h EXCEPT ![a[2]] = @ + 1], inC |-> inC, res |-> res]
    [] a[1] = "drop"      -> [out |-> out, inn |-> inn, h |-> [h EXCEPT ![a[2]] = @ - 1], inC |-> inC, res |-> res]
    [] a[1] = "insert"    -> [out |-> out, inn |-> inn, h |-> h, inC |-> inC \cup {a[2]}, res |-> res]
    [] a[1] = "dropc"     -> [out |-> out, inn |-> inn, h |-> h, inC |-> {}, res |-> res]
    [] a[1] = "edges"     -> [out |-> out, inn |-> inn, h |-> h, inC |-> inC,
                              \* every iterated Edge holds its two endpoints; a node without edges yields none
                              res |-> Append(res, [kind |-> "edges", root |-> a[2], t |-> 0,
                                                   objs |-> IF Peers(a[2]) = {} THEN {} ELSE {a[2]} \cup Peers(a[2])])]
    [] a[1] = "order"     -> [out |-> out, inn |-> inn, h |-> h, inC |-> inC,
                              res |-> Append(res, [kind |-> "order", root |-> a[2], t |-> 0, objs |-> Reach(G, a[2])])]
    [] a[1] = "path"      -> [out |-> out, inn |-> inn, h |-> h, inC |-> inC,
                              res |-> Append(res, [kind |-> "path", root |-> a[2], t |-> a[3],
                                                   \* a path mentions at least its endpoints; exactly which
                                                   \* intermediate nodes is the search's business (C04)
                                                   objs |-> {a[2], a[3]}])]
    [] a[1] = "dropres"   -> [out |-> out, inn |-> inn, h |-> h, inC |-> inC,
                              res |-> SubSeq(res, 1, a[2] - 1) \o SubSeq(res, a[2] + 1, Len(res))]
    [] a[1] = "lookup"    -> [out |-> out, inn |-> inn, h |-> h, inC |-> inC, res |-> res]   \* queries own nothing

Actions == {<<"connect", u, v>> : u \in Nodes, v \in Nodes}
      \cup {<<"clone", o>> : o \in Nodes} \cup {<<"drop", o>> : o \in Nodes}
      \cup {<<"insert", o>> : o \in Nodes} \cup {<<"dropc">>}
      \cup {<<"edges", o>> : o \in Nodes} \cup {<<"order", o>> : o \in Nodes}
      \cup {<<"path", u, v>> : u \in Nodes, v \in Nodes}
      \cup {<<"dropres", k>> : k \in 1..MaxRes}
      \cup {<<"lookup", u, v>> : u \in Nodes, v \in Nodes}

ReleasedIn(s) == {o \in Nodes : ~(s.h[o] > 0 \/ o \in s.inC \/ o \in UNION {s.res[k].objs : k \in 1..Len(s.res)})}
=============================================================================
