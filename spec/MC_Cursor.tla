------------------------------ MODULE MC_Cursor ------------------------------
(***************************************************************************)
(* C20: mutation from inside edge loops and traversal callbacks.           *)
(*                                                                         *)
(* A loop is either a plain edge iterator (iter_out / iter_in / iter) or a *)
(* traversal of Search.tla; both read the LIVE adjacency lists through a   *)
(* positional cursor and hold nothing between two steps.  A script is a    *)
(* finite sequence of <<k, op>>: operation op (an edge operation of        *)
(* Adjacency, or a "query" = observers / nested search / container calls,  *)
(* which change nothing) is executed from inside the loop body / closure   *)
(* right after the k-th yielded edge.                                      *)
(*                                                                         *)
(* TLC explores every (graph, loop, script) within the bounds, checks      *)
(* YieldExists and termination (every run reaches "done": Bounded), and    *)
(* emits yields + final state for replay inside the real loops.            *)
(***************************************************************************)
EXTENDS Search, TLC, Json, SequencesExt

CONSTANTS MaxEdges, MaxScript, MaxAt, LoopKinds, QDirs

VARIABLES script, sdone, g0      \* the script, how many of its entries ran, the initial graph
cvars == <<script, sdone, g0>>
cursorvars == <<out, inn, svars, cvars>>

ZeroVals == [n \in Nodes |-> 0]
CInit == /\ out = Empty /\ inn = Empty /\ nval = ZeroVals /\ phase = "build"
         /\ qry = [kind |-> "bfs", root |-> 0, dir |-> "out", cyc |-> FALSE, rej |-> {}]
         /\ fr = <<>> /\ cur = 0 /\ pos = 0 /\ stack = <<>> /\ visited = {}
         /\ tree = <<>> /\ hist = <<>> /\ found = FALSE
         /\ script = <<>> /\ sdone = 0 /\ g0 = [out |-> Empty, inn |-> Empty]

Build == /\ phase = "build" /\ TotalEdges(out) < MaxEdges
         /\ \E u \in Nodes, v \in Nodes, e \in Vals :
               LET r == ConnectOutcome(out, inn, u, v, e) IN out' = r.out /\ inn' = r.inn
         /\ UNCHANGED <<svars, cvars>>

ScriptOps == Ops \cup {<<"query", u>> : u \in Nodes}
\* scripts: strictly increasing positions (one operation per yield at most)
Scripts == UNION {{s \in [1..len -> (1..MaxAt) \X ScriptOps] :
                      \A a \in 1..(len - 1) : s[a][1] < s[a + 1][1]} : len \in 0..MaxScript}

StartLoop ==
  /\ phase = "build"
  /\ \E kind \in LoopKinds, root \in Nodes, d \in (IF Directed THEN QDirs ELSE {"out"}) :
     \E cyc \in (IF kind \in {"bfs", "dfs", "pfsmin"} THEN BOOLEAN ELSE {FALSE}) :
     \E s \in Scripts :
        /\ script' = s /\ sdone' = 0 /\ g0' = [out |-> out, inn |-> inn]
        /\ IF kind = "iter"
           THEN /\ phase' = "run"
                /\ qry' = [kind |-> "iter", root |-> root, dir |-> d, cyc |-> FALSE, rej |-> {}]
                /\ cur' = root /\ pos' = 1 /\ fr' = <<>> /\ stack' = <<>> /\ visited' = {}
                /\ tree' = <<>> /\ hist' = <<>> /\ found' = FALSE /\ nval' = ZeroVals
                /\ UNCHANGED <<out, inn>>
           ELSE Start(kind, root, d, cyc, {}, ZeroVals)

Pending == sdone < Len(script) /\ script[sdone + 1][1] = Len(hist)

\* the k-th yield has just been handed to the loop body: run the script entry
\* (also when that yield was the last one: the closure runs before the traversal
\* decides that it is finished)
ScriptStep ==
  /\ phase \in {"run", "done"} /\ Pending
  /\ LET op == script[sdone + 1][2] IN
     IF op[1] = "query" THEN UNCHANGED <<out, inn>>
     ELSE LET r == Impl(op, out, inn) IN out' = r.out /\ inn' = r.inn
  /\ sdone' = sdone + 1
  /\ UNCHANGED <<svars, script, g0>>

StepIter ==
  /\ phase = "run" /\ qry.kind = "iter" /\ ~Pending
  /\ IF pos > Len(CurList(cur))
     THEN phase' = "done" /\ UNCHANGED <<hist, pos>>
     ELSE LET ent == CurList(cur)[pos] IN
          /\ hist' = Append(hist, <<cur, ent[1], ent[2], TRUE>>) /\ pos' = pos + 1 /\ phase' = phase
  /\ UNCHANGED <<out, inn, nval, qry, fr, cur, stack, visited, tree, found, cvars>>

StepSearch == phase = "run" /\ qry.kind # "iter" /\ ~Pending /\ Step /\ UNCHANGED cvars

CaseRec ==
  [out |-> g0.out, inn |-> g0.inn,
   loop |-> [kind |-> qry.kind, root |-> qry.root, dir |-> qry.dir, cyc |-> qry.cyc],
   script |-> script, ran |-> sdone,
   yields |-> [k \in 1..Len(hist) |-> <<hist[k][1], hist[k][2], hist[k][3]>>],
   final |-> [out |-> out, inn |-> inn]]

Finish == /\ phase = "done" /\ ~Pending
          /\ PrintT(ToJson(CaseRec))
          /\ phase' = "end"
          /\ UNCHANGED <<out, inn, nval, qry, fr, cur, pos, stack, visited, tree, hist, found, cvars>>

CNext == Build \/ StartLoop \/ ScriptStep \/ StepIter \/ StepSearch \/ Finish
CSpecEmit == CInit /\ [][CNext]_cursorvars

\* C20, "every edge it yields exists at the moment it is yielded": holds for the
\* last yield in every state in which no script entry has run since
LastYieldExists ==
  (phase = "run" /\ Len(hist) > 0 /\ (sdone = 0 \/ script[sdone][1] < Len(hist))) =>
     LET y == hist[Len(hist)] IN
     HasEdge([out |-> out, inn |-> inn, dir |-> qry.dir, rej |-> {}], <<y[1], y[2], y[3]>>)

\* liveness under weak fairness (small constants): once started, every loop ends
CSpecFair == CSpecEmit /\ WF_cursorvars(ScriptStep) /\ WF_cursorvars(StepIter) /\ WF_cursorvars(StepSearch) /\ WF_cursorvars(Finish)
EveryLoopEnds == (phase = "run") ~> (phase = "end")

\* termination: a loop never yields more than the edges that ever existed allow
Bounded == Len(hist) <= 2 * (MaxEdges + MaxScript) * (Cardinality(Nodes) + 1)
MirrorKept == Mirror(out, inn)
=============================================================================
