------------------------------ MODULE Adjacency ------------------------------
(***************************************************************************)
(* Abstract state and edge operations of gdsl nodes (all four flavours).   *)
(*                                                                         *)
(* A node object owns two ordered lists of entries <<peer, value>>:        *)
(*   out[n]  - directed: outgoing edges;  undirected: half-edges n created *)
(*   inn[n]  - directed: incoming edges;  undirected: half-edges n received*)
(* For the undirected flavours the public adjacency is out[n] \o inn[n].   *)
(*                                                                         *)
(* Every operation is given twice, as pure operators over (o, i):          *)
(*   Contract(op, o, i) - the SET of outcomes [out, inn, res] the given    *)
(*                        property statements (C01-C03) allow              *)
(*   Impl(op, o, i)     - the ONE outcome the code is designed to produce  *)
(*                        (first-match removal, inbound before outbound)   *)
(* TLC checks Impl \in Contract in every reachable state, Mirror/Symmetric *)
(* as invariants, and the action properties of C03.  The same operators    *)
(* adjudicate every step the real code takes (TraceAdjacency) and generate *)
(* the cases replayed into the real code (MC_Adjacency).                   *)
(***************************************************************************)
EXTENDS Naturals, Sequences, FiniteSets

CONSTANTS Nodes,     \* set of node ids (= distinct keys)
          Vals,      \* set of edge values
          Directed   \* BOOLEAN

VARIABLES out, inn

vars == <<out, inn>>

-----------------------------------------------------------------------------
(* sequences of entries *)
Peer(x) == x[1]
Val(x)  == x[2]
IdxOf(s)  == 1..Len(s)
DelAt(s, i)  == SubSeq(s, 1, i - 1) \o SubSeq(s, i + 1, Len(s))
HasPeer(s, p)   == \E i \in IdxOf(s) : Peer(s[i]) = p
PeerIdx(s, p)   == {i \in IdxOf(s) : Peer(s[i]) = p}
\* rank of position i among the entries of s whose peer is p (1-based)
RankOf(s, i, p)   == Cardinality({j \in 1..i : Peer(s[j]) = p})
MinOf(S)          == CHOOSE x \in S : \A y \in S : x <= y
FirstIdx(s, p)  == MinOf(PeerIdx(s, p))
DropPeer(s, p)  == SelectSeq(s, LAMBDA x : Peer(x) # p)
\* the values of the entries of s with peer p, in order
ValsTo(s, p)    == LET t == SelectSeq(s, LAMBDA x : Peer(x) = p)
                   IN  [k \in IdxOf(t) |-> Val(t[k])]
CountOf(s, p, e)  == Cardinality({k \in IdxOf(s) : s[k] = <<p, e>>})

Adj(o, i, n)    == o[n] \o i[n]          \* undirected adjacency as iterated
Empty           == [n \in Nodes |-> <<>>]
TotalEdges(o)   == LET RECURSIVE Sum(_)
                       Sum(S) == IF S = {} THEN 0
                                 ELSE LET n == CHOOSE x \in S : TRUE
                                      IN  Len(o[n]) + Sum(S \ {n})
                   IN  Sum(Nodes)

-----------------------------------------------------------------------------
(* C01 / C02 : the invariants *)

\* Structural mirror: per ordered pair (u,v) the values u lists towards v in
\* out[u] are, in the same order and multiplicity, the values v lists from u
\* in inn[v].  Directed: this IS C01.  Undirected: half-edge pairing, which
\* implies C02's symmetry.
Mirror(o, i) == \A u \in Nodes, v \in Nodes : ValsTo(o[u], v) = ValsTo(i[v], u)

\* C02 as stated: u lists (v,e) exactly as often as v lists (u,e)
Symmetric(o, i) == \A u \in Nodes, v \in Nodes, e \in Vals :
                      CountOf(Adj(o, i, u), v, e) = CountOf(Adj(o, i, v), u, e)

WellFormed(o, i) == /\ o \in [Nodes -> Seq(Nodes \X Vals)]
                    /\ i \in [Nodes -> Seq(Nodes \X Vals)]

-----------------------------------------------------------------------------
(* derived observers (what the public query methods must report) *)
OutDegree(o, i, n)  == Len(o[n])
InDegree(o, i, n)   == Len(i[n])
Degree(o, i, n)     == Len(o[n]) + Len(i[n])       \* a self-loop counts twice
IsRoot(o, i, n)     == Len(i[n]) = 0
IsLeaf(o, i, n)     == Len(o[n]) = 0
IsOrphan(o, i, n)   == Len(o[n]) = 0 /\ Len(i[n]) = 0
\* "the caller has an edge to the other node" (either direction if undirected)
HasEdgeTo(o, i, u, v) == IF Directed THEN HasPeer(o[u], v)
                         ELSE HasPeer(o[u], v) \/ HasPeer(i[u], v)
FindOutbound(o, i, u, k) == HasPeer(o[u], k)
FindInbound(o, i, u, k)  == HasPeer(i[u], k)

\* the observer record the harness logs for node n (booleans / naturals only)
Obs(o, i, n) ==
  IF Directed
  THEN [od |-> OutDegree(o, i, n), id |-> InDegree(o, i, n),
        root |-> IsRoot(o, i, n), leaf |-> IsLeaf(o, i, n),
        orphan |-> IsOrphan(o, i, n),
        conn |-> [k \in Nodes |-> HasEdgeTo(o, i, n, k)],
        fo |-> [k \in Nodes |-> FindOutbound(o, i, n, k)],
        fi |-> [k \in Nodes |-> FindInbound(o, i, n, k)]]
  ELSE [deg |-> Degree(o, i, n), orphan |-> IsOrphan(o, i, n),
        conn |-> [k \in Nodes |-> HasEdgeTo(o, i, n, k)]]

\* C01/C02 second sentences: the observers of both endpoints describe one edge set
ObserversAgree(o, i) ==
  /\ \A u \in Nodes, v \in Nodes :
        IF Directed THEN FindOutbound(o, i, u, v) = FindInbound(o, i, v, u)
        ELSE HasEdgeTo(o, i, u, v) = HasEdgeTo(o, i, v, u)
  /\ LET RECURSIVE SumO(_), SumI(_)
         SumO(S) == IF S = {} THEN 0 ELSE LET n == CHOOSE x \in S : TRUE
                                          IN Len(o[n]) + SumO(S \ {n})
         SumI(S) == IF S = {} THEN 0 ELSE LET n == CHOOSE x \in S : TRUE
                                          IN Len(i[n]) + SumI(S \ {n})
     IN  SumO(Nodes) = SumI(Nodes)

-----------------------------------------------------------------------------
(* operations: op is a tuple <<name, args...>> *)

Out3(o, i, r) == [out |-> o, inn |-> i, res |-> r]

ConnectOutcome(o, i, u, v, e) ==
  Out3([o EXCEPT ![u] = Append(@, <<v, e>>)],
       [i EXCEPT ![v] = Append(@, <<u, e>>)], "ok")

\* remove position a of out[u] and position b of inn[k] (one edge u -> k)
RemovePair(o, i, u, a, k, b) ==
  Out3([o EXCEPT ![u] = DelAt(@, a)], [i EXCEPT ![k] = DelAt(@, b)], Val(o[u][a]))

\* all (a, b) with out[u][a] and inn[k][b] the two halves of one edge u -> k
Halves(o, i, u, k) ==
  {ab \in IdxOf(o[u]) \X IdxOf(i[k]) :
      /\ Peer(o[u][ab[1]]) = k /\ Peer(i[k][ab[2]]) = u
      /\ RankOf(o[u], ab[1], k) = RankOf(i[k], ab[2], u)
      /\ Val(o[u][ab[1]]) = Val(i[k][ab[2]])}

\* ---- contract layer (C03 as stated) ----
ContractConnect(o, i, u, v, e) == {ConnectOutcome(o, i, u, v, e)}

ContractTryConnect(o, i, u, v, e) ==
  IF HasEdgeTo(o, i, u, v) THEN {Out3(o, i, "EdgeAlreadyExists")}
  ELSE {ConnectOutcome(o, i, u, v, e)}

\* removes exactly one existing edge between the pair and returns ITS value;
\* which of several parallel edges is not prescribed.  Directed: an edge u -> k.
\* Undirected: an edge created by either endpoint.
ContractDisconnect(o, i, u, k) ==
  LET own   == {RemovePair(o, i, u, ab[1], k, ab[2]) : ab \in Halves(o, i, u, k)}
      recvd == IF Directed THEN {}
               ELSE {RemovePair(o, i, k, ab[1], u, ab[2]) : ab \in Halves(o, i, k, u)}
      all   == own \cup recvd
  IN  IF all = {} THEN {Out3(o, i, "EdgeNotFound")} ELSE all

\* removes exactly the edges incident to u
IsolateOutcome(o, i, u) ==
  Out3([n \in Nodes |-> IF n = u THEN <<>> ELSE DropPeer(o[n], u)],
       [n \in Nodes |-> IF n = u THEN <<>> ELSE DropPeer(i[n], u)], "ok")
ContractIsolate(o, i, u) == {IsolateOutcome(o, i, u)}

Contract(op, o, i) ==
  CASE op[1] = "connect"     -> ContractConnect(o, i, op[2], op[3], op[4])
    [] op[1] = "try_connect" -> ContractTryConnect(o, i, op[2], op[3], op[4])
    [] op[1] = "disconnect"  -> ContractDisconnect(o, i, op[2], op[3])
    [] op[1] = "isolate"     -> ContractIsolate(o, i, op[2])

\* ---- algorithm layer (what the code is designed to do) ----
\* directed: first outbound match at u, first inbound match at k.
\* undirected: first received half-edge from k (and its partner, k's first own
\* half-edge towards u), else first own half-edge towards k (and its partner).
ImplDisconnect(o, i, u, k) ==
  IF Directed
  THEN IF HasPeer(o[u], k)
       THEN RemovePair(o, i, u, FirstIdx(o[u], k), k, FirstIdx(i[k], u))
       ELSE Out3(o, i, "EdgeNotFound")
  ELSE IF HasPeer(i[u], k)
       THEN RemovePair(o, i, k, FirstIdx(o[k], u), u, FirstIdx(i[u], k))
       ELSE IF HasPeer(o[u], k)
            THEN RemovePair(o, i, u, FirstIdx(o[u], k), k, FirstIdx(i[k], u))
            ELSE Out3(o, i, "EdgeNotFound")

Impl(op, o, i) ==
  CASE op[1] = "connect"     -> ConnectOutcome(o, i, op[2], op[3], op[4])
    [] op[1] = "try_connect" -> IF HasEdgeTo(o, i, op[2], op[3])
                                THEN Out3(o, i, "EdgeAlreadyExists")
                                ELSE ConnectOutcome(o, i, op[2], op[3], op[4])
    [] op[1] = "disconnect"  -> ImplDisconnect(o, i, op[2], op[3])
    [] op[1] = "isolate"     -> IsolateOutcome(o, i, op[2])

Ops == {<<"connect", u, v, e>> : u \in Nodes, v \in Nodes, e \in Vals}
  \cup {<<"try_connect", u, v, e>> : u \in Nodes, v \in Nodes, e \in Vals}
  \cup {<<"disconnect", u, k>> : u \in Nodes, k \in Nodes}
  \cup {<<"isolate", u>> : u \in Nodes}

-----------------------------------------------------------------------------
(* the state machine *)
Init == out = Empty /\ inn = Empty

Do(op) == \E r \in Contract(op, out, inn) : out' = r.out /\ inn' = r.inn

Next == \E op \in Ops : Do(op)

Spec == Init /\ [][Next]_vars

-----------------------------------------------------------------------------
(* properties checked by TLC *)
TypeOK       == WellFormed(out, inn)
InvMirror    == Mirror(out, inn)                           \* C01 (and half-edge pairing)
InvSymmetric == Directed \/ Symmetric(out, inn)            \* C02
InvObservers == ObserversAgree(out, inn)
\* the algorithm layer refines the contract in every reachable state
InvImplRefines == \A op \in Ops : Impl(op, out, inn) \in Contract(op, out, inn)
\* the contract never loses the invariants, whatever allowed outcome is taken
InvContractKeepsMirror ==
  \A op \in Ops : \A r \in Contract(op, out, inn) : Mirror(r.out, r.inn)

\* C03 action properties: a failing call changes nothing; connect appends last;
\* removal keeps the relative order of everything that remains
IsSubseqByRemovingOne(s, t) == \E a \in IdxOf(s) : t = DelAt(s, a)
StepShape ==
  [][\A n \in Nodes :
        \/ out'[n] = out[n]
        \/ \E x \in Nodes \X Vals : out'[n] = Append(out[n], x)
        \/ IsSubseqByRemovingOne(out[n], out'[n])
        \/ out'[n] = <<>>
        \/ \E p \in Nodes : out'[n] = DropPeer(out[n], p)]_vars

\* ---- link to the integer abstraction spec/apalache/AdjCount.tla (unbounded proof with Apalache) ----
\* co[u][v][e] / ci[v][u][e] of AdjCount are these counts; every step of this list model is a step
\* (Connect / Disconnect / Isolate / stutter) of the count model
AbsO(o) == [u \in Nodes |-> [v \in Nodes |-> [e \in Vals |-> CountOf(o[u], v, e)]]]
AbsI(i) == [v \in Nodes |-> [u \in Nodes |-> [e \in Vals |-> CountOf(i[v], u, e)]]]
RefinesAdjCount ==
  [][LET co == AbsO(out) ci == AbsI(inn) co2 == AbsO(out') ci2 == AbsI(inn') IN
     \/ co2 = co /\ ci2 = ci
     \/ \E u \in Nodes, v \in Nodes, e \in Vals :
           co2 = [co EXCEPT ![u][v][e] = @ + 1] /\ ci2 = [ci EXCEPT ![v][u][e] = @ + 1]
     \/ \E u \in Nodes, k \in Nodes, e \in Vals :
           /\ co[u][k][e] > 0 /\ ci[k][u][e] > 0
           /\ co2 = [co EXCEPT ![u][k][e] = @ - 1] /\ ci2 = [ci EXCEPT ![k][u][e] = @ - 1]
     \/ \E u \in Nodes :
           /\ co2 = [a \in Nodes |-> [b \in Nodes |-> [e \in Vals |-> IF a = u \/ b = u THEN 0 ELSE co[a][b][e]]]]
           /\ ci2 = [a \in Nodes |-> [b \in Nodes |-> [e \in Vals |-> IF a = u \/ b = u THEN 0 ELSE ci[a][b][e]]]]
    ]_vars
=============================================================================
