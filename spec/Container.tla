------------------------------ MODULE Container ------------------------------
(***************************************************************************)
(* The four Graph containers as key -> node maps with derived views (C18). *)
(*                                                                         *)
(* Node OBJECTS are 1..NK+ND. Object o <= NK has key o; objects NK+1..NK+ND *)
(* are extra nodes that repeat the keys 1..ND (needed for "insert with a    *)
(* present key keeps the original").  Edge operations are performed only on *)
(* the objects 1..NK (distinct keys, the precondition of C01-C03), whether  *)
(* they are members of the container or not; the adjacency state is the    *)
(* (out, inn) of Adjacency over Nodes = 1..NK.                              *)
(*                                                                         *)
(* mem[k] = the object stored under key k, 0 if none.                      *)
(***************************************************************************)
EXTENDS Adjacency

CONSTANTS NK, ND

Keys  == 1..NK
Objs  == 1..(NK + ND)
KeyOf(o) == IF o <= NK THEN o ELSE o - NK
ValOf(o) == 10 * o                    \* node value the harness gives object o

\* the lists of an object as the container's views see them
OOut(o_, i_, o) == IF o <= NK THEN o_[o] ELSE <<>>
OInn(o_, i_, o) == IF o <= NK THEN i_[o] ELSE <<>>
OIter(o_, i_, o) == IF Directed THEN OOut(o_, i_, o) ELSE OOut(o_, i_, o) \o OInn(o_, i_, o)

Members(mem) == {mem[k] : k \in {j \in Keys : mem[j] # 0}}

-----------------------------------------------------------------------------
(* views: what every query method must return in state (mem, o_, i_) *)
Views(mem, o_, i_) ==
  [get      |-> [k \in Keys |-> mem[k]],
   contains |-> [k \in Keys |-> mem[k] # 0],
   len      |-> Cardinality({k \in Keys : mem[k] # 0}),
   is_empty |-> \A k \in Keys : mem[k] = 0,
   to_vec   |-> Members(mem),
   iter     |-> {<<k, mem[k]>> : k \in {j \in Keys : mem[j] # 0}},
   roots    |-> {m \in Members(mem) : OInn(o_, i_, m) = <<>>},
   leaves   |-> {m \in Members(mem) : OOut(o_, i_, m) = <<>>},
   orphans  |-> {m \in Members(mem) : OOut(o_, i_, m) = <<>> /\ OInn(o_, i_, m) = <<>>}]

\* DOT export: one node statement per member, one `u -> v` statement per edge
\* obtained by iterating the members; attribute callbacks are selected by 0/1/2
Attr(sel, tag, a, b) == IF sel = 0 THEN <<>>
                        ELSE IF sel = 1 THEN <<<<tag \o "a", a>>>>
                        ELSE <<<<tag \o "a", a>>, <<tag \o "b", b>>>>
DotNodes(mem, na) == {<<KeyOf(m), Attr(na, "n", KeyOf(m), ValOf(m))>> : m \in Members(mem)}
\* a set of <<member, position>> -> statement, so that parallel edges stay distinct
DotEdgeIdx(mem, o_, i_) == UNION {{<<m, a>> : a \in 1..Len(OIter(o_, i_, m))} : m \in Members(mem)}
DotEdge(o_, i_, ea, x) ==
  LET m == x[1] ent == OIter(o_, i_, m)[x[2]] IN
  <<KeyOf(m), ent[1], Attr(ea, "e", 10 * KeyOf(m) + ent[1], ent[2])>>
DotGraphAttrs(mem, ga) == Attr(ga, "g", Cardinality(Members(mem)), 7)

\* bag equality between a logged sequence of statements and the expected ones
CountSeq(s, x) == Cardinality({k \in 1..Len(s) : s[k] = x})
DotOK(mem, o_, i_, ga, na, ea, dot) ==
  \* (the text of the header / footer lines is not part of the statement of C18)
  /\ dot.gattrs = DotGraphAttrs(mem, ga)
  /\ Len(dot.nodes) = Cardinality(Members(mem))
  /\ \A st \in DotNodes(mem, na) : CountSeq(dot.nodes, st) = 1
  /\ Len(dot.edges) = Cardinality(DotEdgeIdx(mem, o_, i_))
  /\ \A x \in DotEdgeIdx(mem, o_, i_) :
        CountSeq(dot.edges, DotEdge(o_, i_, ea, x))
          = Cardinality({y \in DotEdgeIdx(mem, o_, i_) : DotEdge(o_, i_, ea, y) = DotEdge(o_, i_, ea, x)})

-----------------------------------------------------------------------------
(* operations: <<"insert", obj>>, <<"remove", key>>, or an edge operation of *)
(* Adjacency on objects 1..NK                                                *)
CStep(op, mem, o_, i_) ==
  CASE op[1] = "insert" ->
         LET k == KeyOf(op[2]) IN
         IF mem[k] # 0 THEN [mem |-> mem, out |-> o_, inn |-> i_, res |-> FALSE]
         ELSE [mem |-> [mem EXCEPT ![k] = op[2]], out |-> o_, inn |-> i_, res |-> TRUE]
    [] op[1] = "remove" ->
         [mem |-> [mem EXCEPT ![op[2]] = 0], out |-> o_, inn |-> i_, res |-> mem[op[2]]]
    [] OTHER ->
         LET r == Impl(op, o_, i_) IN [mem |-> mem, out |-> r.out, inn |-> r.inn, res |-> r.res]

COps == {<<"insert", o>> : o \in Objs} \cup {<<"remove", k>> : k \in Keys} \cup Ops
=============================================================================
