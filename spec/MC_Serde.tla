------------------------------ MODULE MC_Serde ------------------------------
(* C12: every small graph x EVERY container iteration order pi round-trips.   *)
(* C13: every small abstract document deserialises to an allowed outcome.     *)
(* Emits the graphs (C12) and the documents with the algorithm-layer outcome  *)
(* (C13) as cases for the real serde_json / serde_cbor code.                  *)
EXTENDS Serde, Json, SequencesExt

CONSTANTS MaxEdges,
          MaxDocNodes, MaxDocEdges, DocVals   \* C13 document bounds

VARIABLES phase, doc
mvars == <<out, inn, phase, doc>>

NoDoc == [nodes |-> <<>>, edges |-> <<>>]
MInit == out = Empty /\ inn = Empty /\ phase = "build" /\ doc = NoDoc

Build == /\ phase = "build" /\ TotalEdges(out) < MaxEdges
         /\ \E u \in Nodes, v \in Nodes, e \in Vals :
               LET r == ConnectOutcome(out, inn, u, v, e) IN out' = r.out /\ inn' = r.inn
         /\ UNCHANGED <<phase, doc>>

EmitGraph == /\ phase = "build"
             /\ PrintT(ToJson([case |-> "graph", out |-> out, inn |-> inn]))
             /\ phase' = "emitted" /\ UNCHANGED <<out, inn, doc>>

Perms == {s \in [1..Cardinality(Nodes) -> Nodes] : \A a, b \in 1..Cardinality(Nodes) : a # b => s[a] # s[b]}

\* C12 for every container order
RoundTripAllOrders ==
  phase = "build" => \A pi \in Perms :
     /\ RoundTripOK(out, inn, Nodes, Deser(Serialize(out, inn, pi)))
     /\ IsSerialisationOf(Serialize(out, inn, pi), out, inn, Nodes)

\* ---- C13: documents, grown entry by entry ----
GrowDoc == /\ phase = "build" /\ out = Empty /\ inn = Empty
           /\ \/ /\ Len(doc.nodes) < MaxDocNodes /\ doc.edges = <<>>
                 /\ \E k \in Nodes, v \in DocVals : doc' = [doc EXCEPT !.nodes = Append(@, <<k, v>>)]
              \/ /\ Len(doc.edges) < MaxDocEdges
                 /\ \E u \in Nodes, v \in Nodes, e \in Vals : doc' = [doc EXCEPT !.edges = Append(@, <<u, v, e>>)]
           /\ UNCHANGED <<out, inn, phase>>

EmitDoc == /\ phase = "build" /\ out = Empty /\ inn = Empty
           /\ PrintT(ToJson([case |-> "doc", doc |-> doc, res |-> Deser(doc)]))
           /\ phase' = "emitteddoc" /\ UNCHANGED <<out, inn, doc>>

\* the algorithm layer's outcome is an outcome the property allows
DeserAllowed == UntrustedOK(doc, Deser(doc))
\* ... and Err exactly when an undeclared key is named (the code never errs otherwise)
DeserErrIff == Deser(doc).ok = ~Undeclared(doc)

GNext == Build \/ EmitGraph
GSpec == MInit /\ [][GNext]_mvars
DNext == GrowDoc \/ EmitDoc
DSpec == MInit /\ [][DNext]_mvars
=============================================================================
