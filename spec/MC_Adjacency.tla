---------------------------- MODULE MC_Adjacency ----------------------------
(* Model-checking / case-generation wrapper of Adjacency.                    *)
(* Exhaustive over all multigraph states with at most MaxEdges live edges.   *)
(* EmitCases prints, once per distinct state, the state, its observers and   *)
(* for EVERY operation the algorithm-layer outcome plus (when it is not the  *)
(* only one) every outcome the contract allows: the cases replayed into the  *)
(* real code.                                                                *)
EXTENDS Adjacency, TLC, Json, SequencesExt

CONSTANT MaxEdges

Bound == TotalEdges(out) <= MaxEdges

\* states at the bound are not expanded by TLC (CONSTRAINT), but their growing
\* operations are still emitted as cases: check the invariants on those outcomes
InvBoundary ==
  TotalEdges(out) = MaxEdges =>
    \A op \in Ops : op[1] \in {"connect", "try_connect"} =>
       \A r \in Contract(op, out, inn) :
          Mirror(r.out, r.inn) /\ (Directed \/ Symmetric(r.out, r.inn)) /\ ObserversAgree(r.out, r.inn)

OpSeq == SetToSeq(Ops)

CaseRec ==
  [out |-> out, inn |-> inn,
   obs |-> [n \in Nodes |-> Obs(out, inn, n)],
   ops |-> [k \in 1..Len(OpSeq) |->
              LET op == OpSeq[k]
                  im == Impl(op, out, inn)
                  al == Contract(op, out, inn)
              IN  [op |-> op, impl |-> im,
                   allowed |-> IF al = {im} THEN <<>> ELSE SetToSeq(al)]]]

EmitCases == PrintT(ToJson(CaseRec))

\* every distinct state is expanded exactly once, so this prints one line per state
NextEmit == EmitCases /\ Next
SpecEmit == Init /\ [][NextEmit]_vars
=============================================================================
