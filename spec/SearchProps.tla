----------------------------- MODULE SearchProps -----------------------------
(***************************************************************************)
(* Property layer of the traversals: exactly what the given statements     *)
(* C04-C10 say, as declarative predicates over a graph view                *)
(*    G = [out, inn, dir, rej]                                             *)
(* (adjacency lists, search direction "out"/"in", set of triples <<u,v,e>> *)
(* the pure filter rejects).  Nothing here knows how the code searches.    *)
(* These predicates decide VIOLATION: TLC evaluates them on the results    *)
(* the implementation actually produced (TraceSearch) and on every run of  *)
(* the algorithm layer (MC_Search).                                        *)
(***************************************************************************)
EXTENDS Adjacency

\* the list a traversal of direction d walks at n; an entry <<p, e>> is reported
\* as the edge <<n, p, e>> (so a stored edge u->v is <<v, u, e>> when d = "in")
ListOf(o, i, d, n) == IF Directed THEN (IF d = "out" THEN o[n] ELSE i[n]) ELSE o[n] \o i[n]
GList(G, n) == ListOf(G.out, G.inn, G.dir, n)

InGraph(x) == x \in Nodes
HasEdge(G, e) == /\ InGraph(e[1])
                 /\ \E k \in 1..Len(GList(G, e[1])) : GList(G, e[1])[k] = <<e[2], e[3]>>
Acc(G, e) == e \notin G.rej
AccStep(G, u, v) == \E k \in 1..Len(GList(G, u)) :
                       GList(G, u)[k][1] = v /\ <<u, v, GList(G, u)[k][2]>> \notin G.rej

\* successor sets are computed once per graph view and shared by the closures
SuccMap(G) == [u \in Nodes |-> {v \in Nodes : AccStep(G, u, v)}]
RECURSIVE CloseM(_, _)
CloseM(sm, S) == LET T == S \cup UNION {sm[u] : u \in S}
                 IN  IF T = S THEN S ELSE CloseM(sm, T)
Close(G, S)     == CloseM(SuccMap(G), S)
Reach(G, r)     == Close(G, {r})
Succ(G, r)      == {v \in Nodes : AccStep(G, r, v)}
ReachPlus(G, r) == Close(G, Succ(G, r))            \* by one or more accepted edges
HasCycleThrough(G, r) == r \in ReachPlus(G, r)

Infinity == Cardinality(Nodes) + 1
RECURSIVE DistFrom(_, _, _, _, _)
DistFrom(G, front, seen, t, d) ==
  IF t \in front THEN d
  ELSE LET nxt == {v \in Nodes \ seen : \E u \in front : AccStep(G, u, v)}
       IN  IF nxt = {} THEN Infinity ELSE DistFrom(G, nxt, seen \cup nxt, t, d + 1)
Dist(G, r, t)   == DistFrom(G, {r}, {r}, t, 0)
CycleDist(G, r) == DistFrom(G, Succ(G, r), Succ(G, r), r, 1)

Chained(p)  == \A k \in 1..(Len(p) - 1) : p[k][2] = p[k + 1][1]
IsAccPath(G, r, t, p) ==
  /\ Len(p) >= 1 /\ p[1][1] = r /\ p[Len(p)][2] = t /\ Chained(p)
  /\ \A k \in 1..Len(p) : HasEdge(G, p[k]) /\ Acc(G, p[k])
NodesOf(p)  == <<p[1][1]>> \o [k \in 1..Len(p) |-> p[k][2]]
NoRepeat(s) == \A a \in 1..Len(s), b \in 1..Len(s) : a < b => s[a] # s[b]
Simple(p)   == NoRepeat(NodesOf(p))

\* C09.  Directed: a cycle through r using no edge / intermediate node twice
\* (bfs: with the fewest edges).  Undirected: a closed walk of existing
\* accepted (oriented) edges.
CycleOK(G, r, p, shortest) ==
  /\ IsAccPath(G, r, r, p)
  /\ Directed => /\ NoRepeat(SubSeq(NodesOf(p), 1, Len(p)))
                 /\ shortest => Len(p) = CycleDist(G, r)

\* C07: the bag of examined edges is the bag of list entries of reachable nodes
CountIn(s, x) == Cardinality({k \in 1..Len(s) : s[k] = x})
RECURSIVE SumLen(_, _)
SumLen(G, S) == IF S = {} THEN 0 ELSE LET n == CHOOSE x \in S : TRUE
                                     IN  Len(GList(G, n)) + SumLen(G, S \ {n})
ExaminedExactlyOnce(G, r, ev) ==
  LET R == Reach(G, r) IN
  /\ Len(ev) = SumLen(G, R)
  /\ \A k \in 1..Len(ev) :
        /\ ev[k][1] \in R
        /\ CountIn(ev, ev[k]) = CountOf(GList(G, ev[k][1]), ev[k][2], ev[k][3])

\* C06: whenever the search starts expanding a node x, no node that is already
\* discovered, not yet expanded and has edges to expand has a strictly smaller
\* (max: larger) value.  hist entries: <<u, v, e, accepted>>; expansion of x is
\* visible as a maximal run of entries with source x.
ExpansionOrderOK(G, val, max, r, hist) ==
  \A a \in 1..Len(hist) :
     (a = 1 \/ hist[a - 1][1] # hist[a][1]) =>
        LET x == hist[a][1]
            D == {r} \cup {hist[b][2] : b \in {c \in 1..(a - 1) : hist[c][4]}}
            X == {hist[b][1] : b \in 1..(a - 1)}
        IN  \A y \in (D \ X) \ {x} :
               (InGraph(y) /\ GList(G, y) # <<>>) =>
                  IF max THEN ~(val[y] > val[x]) ELSE ~(val[y] < val[x])

\* C10: s is an order in which some depth-first traversal discovers the nodes
RECURSIVE PreSim(_, _, _, _, _)
PreSim(G, stk, vis, s, k) ==
  IF k > Len(s) THEN TRUE
  ELSE IF stk = <<>> THEN FALSE
  ELSE LET top == stk[Len(stk)]
           un  == {w \in Nodes \ vis : AccStep(G, top, w)} IN
       IF un = {} THEN PreSim(G, SubSeq(stk, 1, Len(stk) - 1), vis, s, k)
       ELSE s[k] \in un /\ PreSim(G, Append(stk, s[k]), vis \cup {s[k]}, s, k + 1)
SeqSet(s) == {s[k] : k \in 1..Len(s)}
IsDfsPreorder(G, r, s) ==
  /\ Len(s) >= 1 /\ s[1] = r /\ NoRepeat(s) /\ SeqSet(s) = Reach(G, r)
  /\ PreSim(G, <<r>>, {r}, s, 2)

\* ... and s is an order in which some depth-first traversal finishes them:
\* exact search over all depth-first traversals guided by s
RECURSIVE PostSim(_, _, _, _)
PostSim(G, stk, vis, s) ==
  IF stk = <<>> THEN s = <<>>
  ELSE IF s = <<>> THEN FALSE
  ELSE LET top == stk[Len(stk)]
           un  == {w \in Nodes \ vis : AccStep(G, top, w)} IN
       IF Head(s) = top
       THEN un = {} /\ PostSim(G, SubSeq(stk, 1, Len(stk) - 1), vis, Tail(s))
       ELSE \E w \in un : PostSim(G, Append(stk, w), vis \cup {w}, s)
IsDfsPostorder(G, r, s) ==
  /\ Len(s) >= 1 /\ s[Len(s)] = r /\ NoRepeat(s) /\ SeqSet(s) = Reach(G, r)
  /\ PostSim(G, <<r>>, {r}, s)

\* the consequence spelled out in C10 (used alone on graphs too large for PostSim)
PostorderNecessary(G, r, s) ==
  /\ Len(s) >= 1 /\ s[Len(s)] = r /\ NoRepeat(s) /\ SeqSet(s) = Reach(G, r)
  /\ LET sm == SuccMap(G)
         R == [u \in SeqSet(s) |-> CloseM(sm, {u})] IN
     \A a \in 1..Len(s), b \in 1..Len(s) :
        (AccStep(G, s[a], s[b]) /\ s[a] \notin R[s[b]]) => b < a

\* search_edges: in the order of search_nodes exactly one existing accepted
\* edge entering each reachable non-root node
TreeEdgesOK(G, r, pre, nodes, edges) ==
  LET others == IF pre THEN Tail(nodes) ELSE SubSeq(nodes, 1, Len(nodes) - 1) IN
  /\ Len(nodes) >= 1
  /\ Len(edges) = Len(others)
  /\ \A k \in 1..Len(edges) :
        edges[k][2] = others[k] /\ HasEdge(G, edges[k]) /\ Acc(G, edges[k])

\* C11: comps (a sequence of sequences of nodes) is the partition of the member
\* set into strongly connected components of the unfiltered forward graph
Plain(o, i) == [out |-> o, inn |-> i, dir |-> "out", rej |-> {}]
MutualReach(g, u, v) == v \in Reach(g, u) /\ u \in Reach(g, v)
SCCs(g, members) == LET sm == SuccMap(g)
                        R == [u \in members |-> CloseM(sm, {u})] IN
                    {{v \in members : v \in R[u] /\ u \in R[v]} : u \in members}
Flatten(cs) == LET RECURSIVE Fl(_)
                   Fl(k) == IF k > Len(cs) THEN <<>> ELSE cs[k] \o Fl(k + 1)
               IN  Fl(1)
\* (reach sets are computed once per member, not once per pair: 30-node graphs stay cheap)
IsSccPartition(g, members, comps) ==
  LET flat == Flatten(comps)
      sm == SuccMap(g)
      R == [u \in members |-> CloseM(sm, {u})]
      compOf == [u \in members |-> {a \in 1..Len(comps) : u \in SeqSet(comps[a])}] IN
  /\ NoRepeat(flat)                                  \* every node in at most one component, once
  /\ SeqSet(flat) = members                          \* ... and in at least one
  /\ \A a \in 1..Len(comps) : comps[a] # <<>>
  /\ \A u \in members, v \in members :
        (compOf[u] \cap compOf[v] # {}) <=> (v \in R[u] /\ u \in R[v])
=============================================================================
