------------------------------ MODULE MC_Search ------------------------------
(* Exhaustive exploration of the traversals: every multigraph with at most    *)
(* MaxEdges edges is built with Connect (insertion orders included), then     *)
(* every selected query (kind, root, direction, mode, rejected-edge set, node *)
(* values) is run to completion step by step.  TLC checks the Refines*        *)
(* invariants (algorithm layer |= property layer) and prints every finished   *)
(* run as a JSON case for replay into the real code.                          *)
EXTENDS Search, TLC, Json, SequencesExt

CONSTANTS MaxEdges,
          QKinds,     \* subset of Kinds
          QDirs,      \* subset of {"out", "in"} (directed only)
          QCyc,       \* subset of BOOLEAN: cycle mode on/off
          RejMode,    \* "none" | "single" | "small" | "all": which rejected-edge sets
          NVals       \* node values tried for pfs

ZeroVals == [n \in Nodes |-> 0]

MInit == /\ out = Empty /\ inn = Empty
         /\ nval = ZeroVals /\ phase = "build"
         /\ qry = [kind |-> "bfs", root |-> 0, dir |-> "out", cyc |-> FALSE, rej |-> {}]
         /\ fr = <<>> /\ cur = 0 /\ pos = 0 /\ stack = <<>> /\ visited = {}
         /\ tree = <<>> /\ hist = <<>> /\ found = FALSE

Build == /\ phase = "build" /\ TotalEdges(out) < MaxEdges
         /\ \E u \in Nodes, v \in Nodes, e \in Vals :
               LET r == ConnectOutcome(out, inn, u, v, e) IN out' = r.out /\ inn' = r.inn
         /\ UNCHANGED svars

Triples(d) == UNION {{<<n, ListOf(out, inn, d, n)[k][1], ListOf(out, inn, d, n)[k][2]>> :
                        k \in 1..Len(ListOf(out, inn, d, n))} : n \in Nodes}
RejSets(d) == CASE RejMode = "none"   -> {{}}
                [] RejMode = "single" -> {{}} \cup {{t} : t \in Triples(d)}
                [] RejMode = "small"  -> IF Cardinality(Triples(d)) <= 3 THEN SUBSET Triples(d)
                                         ELSE {{}} \cup {{t} : t \in Triples(d)}
                [] RejMode = "all"    -> SUBSET Triples(d)

StartAny ==
  \E kind \in QKinds, root \in Nodes, d \in (IF Directed THEN QDirs ELSE {"out"}) :
  \E cyc \in (IF kind \in {"pre", "post"} THEN {FALSE} ELSE QCyc) :
  \E rej \in RejSets(d) :
  \E vals \in (IF kind \in {"pfsmin", "pfsmax"} THEN [Nodes -> NVals] ELSE {ZeroVals}) :
     Start(kind, root, d, cyc, rej, vals)

CaseRec ==
  [out |-> out, inn |-> inn, nval |-> nval,
   q |-> [kind |-> qry.kind, root |-> qry.root, dir |-> qry.dir, cyc |-> qry.cyc,
          rej |-> SetToSeq(qry.rej)],
   hist |-> hist,
   res |-> IF qry.cyc THEN [cycle |-> CycleRes]
           ELSE IF qry.kind \in {"pre", "post"} THEN [nodes |-> OrderNodes, edges |-> OrderEdges]
           ELSE [targets |-> [t \in Nodes |-> TargetRes(t)]]]

\* evaluated once per distinct finished run
Finish == /\ phase = "done"
          /\ PrintT(ToJson(CaseRec))
          /\ phase' = "end"
          /\ UNCHANGED <<out, inn, nval, qry, fr, cur, pos, stack, visited, tree, hist, found>>

MNext == Build \/ StartAny \/ Step \/ Finish
MSpec == MInit /\ [][MNext]_allvars

\* without emission (pure model checking)
MNextQuiet == Build \/ StartAny \/ Step
MSpecQuiet == MInit /\ [][MNextQuiet]_allvars
=============================================================================
