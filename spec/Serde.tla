------------------------------- MODULE Serde -------------------------------
(***************************************************************************)
(* Serialisation of the four graph containers (C12, C13).                  *)
(*                                                                         *)
(* A document is  [nodes |-> Seq(<<key, value>>), edges |-> Seq(<<u,v,e>>)] *)
(* - the 2-tuple wire shape (nodes, edges) of graph_serde.rs.              *)
(*                                                                         *)
(* algorithm layer:                                                        *)
(*   Serialize(o, i, pi)  node list in container iteration order pi, then  *)
(*                        per node in that order the edges it CREATED       *)
(*                        (directed: outgoing; undirected: own half-edges)  *)
(*   Deser(doc)           insert the listed nodes (a repeated key keeps the *)
(*                        first), then connect every listed edge in order;  *)
(*                        Err as soon as an edge names an undeclared key    *)
(* property layer:                                                         *)
(*   RoundTripOK          C12                                              *)
(*   UntrustedOK          C13                                              *)
(***************************************************************************)
EXTENDS Adjacency, TLC

NVal(n) == 10 * n        \* the node value the harness gives node n

-----------------------------------------------------------------------------
(* algorithm layer *)
RECURSIVE EdgesOf(_, _, _)
EdgesOf(o, pi, k) ==
  IF k > Len(pi) THEN <<>>
  ELSE [a \in 1..Len(o[pi[k]]) |-> <<pi[k], o[pi[k]][a][1], o[pi[k]][a][2]>>] \o EdgesOf(o, pi, k + 1)

Serialize(o, i, pi) ==
  [nodes |-> [k \in 1..Len(pi) |-> <<pi[k], NVal(pi[k])>>], edges |-> EdgesOf(o, pi, 1)]

DocKeys(doc) == {doc.nodes[k][1] : k \in 1..Len(doc.nodes)}
FirstValue(doc, key) ==
  LET a == CHOOSE b \in 1..Len(doc.nodes) :
              doc.nodes[b][1] = key /\ \A c \in 1..(b - 1) : doc.nodes[c][1] # key
  IN  doc.nodes[a][2]

RECURSIVE ConnectAll(_, _, _, _)
\* connect the listed edges from position k on; Err at the first undeclared key
ConnectAll(doc, k, o, i) ==
  IF k > Len(doc.edges) THEN [ok |-> TRUE, out |-> o, inn |-> i]
  ELSE LET e == doc.edges[k] IN
       IF e[1] \notin DocKeys(doc) \/ e[2] \notin DocKeys(doc)
       THEN [ok |-> FALSE, out |-> o, inn |-> i]
       ELSE LET r == ConnectOutcome(o, i, e[1], e[2], e[3]) IN ConnectAll(doc, k + 1, r.out, r.inn)

\* keys of documents range over Nodes; absent keys have empty lists
Deser(doc) ==
  LET c == ConnectAll(doc, 1, Empty, Empty) IN
  IF c.ok THEN [ok |-> TRUE, keys |-> DocKeys(doc),
                vals |-> [n \in Nodes |-> IF n \in DocKeys(doc) THEN FirstValue(doc, n) ELSE 0],
                out |-> c.out, inn |-> c.inn]
  ELSE [ok |-> FALSE]

-----------------------------------------------------------------------------
(* property layer *)
BagEq(s, t) == /\ Len(s) = Len(t)
               /\ \A k \in 1..Len(s) : CountOf(s, s[k][1], s[k][2]) = CountOf(t, s[k][1], s[k][2])

\* C12: g2 (result of deserialising a serialisation of (o, i) with members M)
RoundTripOK(o, i, M, g2) ==
  /\ g2.ok
  /\ g2.keys = M
  /\ \A n \in M : g2.vals[n] = NVal(n)
  /\ IF Directed THEN \A n \in M : g2.out[n] = o[n]
     ELSE \A n \in M : BagEq(Adj(g2.out, g2.inn, n), Adj(o, i, n))
  /\ \A n \in Nodes \ M : g2.out[n] = <<>> /\ g2.inn[n] = <<>>

\* the document is a serialisation of the graph: its node list is a permutation
\* pi of the members and the document is Serialize(.., pi)
IsSerialisationOf(doc, o, i, M) ==
  LET pi == [k \in 1..Len(doc.nodes) |-> doc.nodes[k][1]] IN
  /\ {pi[k] : k \in 1..Len(pi)} = M /\ Len(pi) = Cardinality(M)
  /\ doc = Serialize(o, i, pi)

\* C13: outcome of deserialising an arbitrary abstract document
EdgeBag(o) == UNION {{<<n, o[n][a][1], o[n][a][2], a>> : a \in 1..Len(o[n])} : n \in Nodes}
CountEdge(o, u, v, e) == Cardinality({a \in 1..Len(o[u]) : o[u][a] = <<v, e>>})
CountDocEdge(doc, u, v, e) == Cardinality({k \in 1..Len(doc.edges) : doc.edges[k] = <<u, v, e>>})
Undeclared(doc) == \E k \in 1..Len(doc.edges) :
                      doc.edges[k][1] \notin DocKeys(doc) \/ doc.edges[k][2] \notin DocKeys(doc)
UntrustedOK(doc, r) ==
  IF ~r.ok THEN TRUE
  ELSE /\ ~Undeclared(doc)                                      \* must have been an error
       /\ r.keys \subseteq DocKeys(doc)                          \* nodes come from the document
       /\ \A n \in r.keys : \E k \in 1..Len(doc.nodes) : doc.nodes[k] = <<n, r.vals[n]>>
       /\ Mirror(r.out, r.inn) /\ (Directed \/ Symmetric(r.out, r.inn))
       /\ \A n \in Nodes \ r.keys : r.out[n] = <<>> /\ r.inn[n] = <<>>
       /\ \A u \in Nodes : \A a \in 1..Len(r.out[u]) :          \* edges come from the document
             /\ r.out[u][a][1] \in r.keys /\ u \in r.keys
             /\ CountEdge(r.out, u, r.out[u][a][1], r.out[u][a][2])
                  <= CountDocEdge(doc, u, r.out[u][a][1], r.out[u][a][2])
=============================================================================
