------------------------------ MODULE MC_Locks ------------------------------
(* Every scenario (initial graph x per-thread call lists) x every interleaving *)
(* of lock steps.  Each distinct terminal state (= outcome: returns, final     *)
(* graph, panics, poisoned locks) is printed once with the verdict of the      *)
(* property layer; the harness must observe exactly these outcomes on the real *)
(* locks.                                                                      *)
EXTENDS Locks, Json, SequencesExt

Emit == /\ AllStopped
        /\ PrintT(ToJson([g0 |-> g0, prog |-> prog, rets |-> rets, status |-> status,
                          final |-> [out |-> out, inn |-> inn], poisoned |-> SetToSeq(poisoned),
                          verdict |-> Verdict]))
        /\ phase' = "end"
        /\ UNCHANGED <<out, inn, prog, ci, pc, reg, rets, status, poisoned, g0>>

LNext == BuildInit \/ Pick \/ (\E t \in Threads : Step(t)) \/ Emit
LSpec == LInit /\ [][LNext]_allv

\* liveness (checked on small constants, weak fairness on the whole next-state relation, no
\* state constraint): every scenario runs to its end - every call returns or its thread panics
LSpecFair == LSpec /\ WF_allv(\E t \in Threads : Step(t)) /\ WF_allv(Emit) /\ WF_allv(Pick)
EveryRunEnds == (phase = "run") ~> (phase = "end")

\* every thread always finishes: in each non-terminal running state some step is enabled
\* (steps are unconditional), i.e. the model itself has no deadlock
Progress == (phase = "run" /\ ~AllStopped) => \E t \in Threads : status[t] = "run"
=============================================================================
