----------------------------- MODULE TraceSerde -----------------------------
(* impl -> spec for C12 / C13. Events recorded from the real serde_json /     *)
(* serde_cbor code:                                                           *)
(*   graph     the graph that is about to be serialised (members 1..n)        *)
(*   ser       the document produced, parsed generically into abstract form   *)
(*   de        the graph obtained by deserialising that document              *)
(*   untrusted an arbitrary document (abstract form when it has one) and the  *)
(*             outcome of deserialising it                                    *)
(* TLC prints a verdict per event.                                            *)
EXTENDS Serde, Json, IOUtils

VARIABLES l, gn, nbad
Rec == ndJsonDeserialize(IOEnv.TRACE)
tvars == <<out, inn, l, gn, nbad>>
TInit == out = Empty /\ inn = Empty /\ l = 1 /\ gn = 0 /\ nbad = 0

When(c, s) == IF c THEN <<s>> ELSE <<>>
ToDoc(d) == [nodes |-> d[1], edges |-> d[2]]
\* a logged result graph: [keys (sequence), vals, out, inn] -> the record Serde uses
ToRes(r) == [ok |-> TRUE, keys |-> {r.keys[k] : k \in 1..Len(r.keys)},
             vals |-> [n \in Nodes |-> r.vals[n]],
             out |-> [n \in Nodes |-> r.out[n]], inn |-> [n \in Nodes |-> r.inn[n]]]

SerReasons(ev) ==
  IF ev.rt # "doc" THEN <<"serialisation-failed-or-not-of-the-wire-shape">>
  \* (binding of the wire shape to Serialize(pi): reported as drift - C12 itself only demands the round trip)
  ELSE When(~IsSerialisationOf(ToDoc(ev.doc), out, inn, 1..gn), "drift:document-is-not-Serialize(graph, pi)")

DeReasons(ev) ==
  IF ev.rt # "graph" THEN <<"deserialising-own-output-failed">>
  ELSE LET g2 == ToRes(ev.res) M == 1..gn IN
          When(g2.keys # M, "roundtrip-keys-differ")
       \o When(g2.keys = M /\ \E n \in M : g2.vals[n] # NVal(n), "roundtrip-node-values-differ")
       \o When(Directed /\ \E n \in M : g2.out[n] # out[n], "roundtrip-outgoing-edges-differ")
       \o When(~Directed /\ \E n \in M : ~BagEq(Adj(g2.out, g2.inn, n), Adj(out, inn, n)), "roundtrip-incident-edges-differ")
       \o When(~Mirror(g2.out, g2.inn), "drift:roundtrip-result-not-mirrored (C12 speaks of the outgoing / incident edges only; C13 and C01 own this)")
       \o When(ev.hasdoc /\ g2 # Deser(ToDoc(ev.doc)), "drift:result-differs-from-Deser(doc)")

UntrustedReasons(ev) ==
  IF ev.rt = "fail" THEN <<"panic-or-hang">>
  ELSE IF ev.rt = "err" THEN <<>>
  ELSE LET r == ToRes(ev.res) IN
       IF ev.hasdoc
       THEN When(~UntrustedOK(ToDoc(ev.doc), r), "outcome-not-allowed-for-this-document")
         \o When(Undeclared(ToDoc(ev.doc)), "accepted-an-edge-naming-an-undeclared-key")
       ELSE When(~(Mirror(r.out, r.inn) /\ (Directed \/ Symmetric(r.out, r.inn))), "broken-graph")

TNext ==
  /\ l <= Len(Rec)
  /\ l' = l + 1
  /\ LET ev == Rec[l] IN
     IF ev.ev = "graph"
     THEN /\ out' = [n \in Nodes |-> ev.out[n]] /\ inn' = [n \in Nodes |-> ev.inn[n]]
          /\ gn' = ev.n /\ nbad' = nbad
     ELSE LET v == IF ev.ev = "ser" THEN SerReasons(ev)
                   ELSE IF ev.ev = "de" THEN DeReasons(ev) ELSE UntrustedReasons(ev) IN
          /\ IF v = <<>> THEN TRUE ELSE PrintT(<<"REJECT", l, v>>)
          /\ nbad' = IF v = <<>> THEN nbad ELSE nbad + 1
          /\ UNCHANGED <<out, inn, gn>>

TSpec == TInit /\ [][TNext]_tvars
Consumed == (l = Len(Rec) + 1) => PrintT(<<"CONSUMED", Len(Rec), "rejected", nbad>>)
AllConsumed == TLCGet("stats").diameter = Len(Rec) + 1
=============================================================================
