CONSTANTS
  Nodes = {1, 2, 3}
  Vals = {1, 2}
  Directed = TRUE
  MaxEdges = 2
SPECIFICATION Spec
CONSTRAINT Bound
INVARIANTS TypeOK InvMirror InvSymmetric InvObservers InvImplRefines InvContractKeepsMirror
PROPERTY StepShape
CHECK_DEADLOCK FALSE
