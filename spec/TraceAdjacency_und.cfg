CONSTANTS
  Nodes = {1, 2, 3, 4, 5, 6, 7, 8}
  Vals = {1, 2, 3}
  Directed = FALSE
SPECIFICATION TSpec
INVARIANT Consumed
POSTCONDITION AllConsumed
CHECK_DEADLOCK FALSE
