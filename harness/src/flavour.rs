//! One trait, four implementations (digraph, sync_digraph, ungraph,
//! sync_ungraph) so that every driver is written once.

use serde_json::{json, Value};

pub type K = u32;
pub type NV = i64;
pub type EV = i64;
pub type Triple = (K, K, EV);

#[derive(Clone, Copy, PartialEq, Eq, Debug, Hash)]
pub enum Kind {
    Bfs,
    Dfs,
    PfsMin,
    PfsMax,
    Pre,
    Post,
}

impl Kind {
    pub const ALL: [Kind; 6] = [Kind::Bfs, Kind::Dfs, Kind::PfsMin, Kind::PfsMax, Kind::Pre, Kind::Post];
    pub fn name(self) -> &'static str {
        match self {
            Kind::Bfs => "bfs",
            Kind::Dfs => "dfs",
            Kind::PfsMin => "pfsmin",
            Kind::PfsMax => "pfsmax",
            Kind::Pre => "pre",
            Kind::Post => "post",
        }
    }
    pub fn parse(s: &str) -> Kind {
        match s {
            "bfs" => Kind::Bfs,
            "dfs" => Kind::Dfs,
            "pfsmin" => Kind::PfsMin,
            "pfsmax" => Kind::PfsMax,
            "pre" => Kind::Pre,
            "post" => Kind::Post,
            _ => panic!("bad kind {}", s),
        }
    }
    pub fn is_order(self) -> bool {
        matches!(self, Kind::Pre | Kind::Post)
    }
}

#[derive(Clone, Copy, PartialEq, Eq, Debug, Hash)]
pub enum Entry {
    Search,
    SearchPath,
    SearchCycle,
    SearchNodes,
    SearchEdges,
}

impl Entry {
    pub fn name(self) -> &'static str {
        match self {
            Entry::Search => "search",
            Entry::SearchPath => "search_path",
            Entry::SearchCycle => "search_cycle",
            Entry::SearchNodes => "search_nodes",
            Entry::SearchEdges => "search_edges",
        }
    }
    pub fn parse(s: &str) -> Entry {
        match s {
            "search" => Entry::Search,
            "search_path" => Entry::SearchPath,
            "search_cycle" => Entry::SearchCycle,
            "search_nodes" => Entry::SearchNodes,
            "search_edges" => Entry::SearchEdges,
            _ => panic!("bad entry {}", s),
        }
    }
}

#[derive(Clone, Copy, PartialEq, Eq, Debug, Hash)]
pub enum Meth {
    /// no closure installed
    Plain,
    /// `for_each(closure)`: the closure's return value is ignored
    ForEach,
    /// `filter(closure)`
    Filter,
}

#[derive(Clone, Debug)]
pub struct Query {
    pub kind: Kind,
    pub entry: Entry,
    pub target: Option<K>,
    pub transpose: bool,
    pub meth: Meth,
    /// run the builder once before the observed call (same builder value used twice):
    /// search_path / search_cycle twice; search_edges before search_nodes and vice versa
    pub repeat: bool,
    /// builder chain order: false = options (target / transpose / min / max / pre / post) first and
    /// the closure last; true = the closure first and the options after it
    pub late: bool,
}

#[derive(Clone, Debug, PartialEq)]
pub enum SRes {
    None,
    Node(K),
    Path(Vec<Triple>),
    Nodes(Vec<K>),
    Edges(Vec<Triple>),
}

impl SRes {
    pub fn to_json(&self) -> Value {
        match self {
            SRes::None => json!("none"),
            SRes::Node(k) => json!({ "node": k }),
            SRes::Path(p) => json!({ "path": p }),
            SRes::Nodes(n) => json!({ "nodes": n }),
            SRes::Edges(e) => json!({ "edges": e }),
        }
    }
}

pub type Cb<'a> = &'a mut dyn FnMut(K, K, EV) -> bool;

/// Everything the drivers need from a flavour.
pub trait Fl: 'static {
    const NAME: &'static str;
    const DIRECTED: bool;
    const SYNC: bool;
    type Node: Clone;
    type Graph;

    fn node(k: K, v: NV) -> Self::Node;
    fn key(n: &Self::Node) -> K;
    fn val(n: &Self::Node) -> NV;
    fn deref_val(n: &Self::Node) -> NV;

    fn connect(u: &Self::Node, v: &Self::Node, e: EV);
    fn try_connect(u: &Self::Node, v: &Self::Node, e: EV) -> Result<(), &'static str>;
    fn disconnect(u: &Self::Node, k: K) -> Result<EV, &'static str>;
    fn isolate(u: &Self::Node);

    /// directed: iter_out as (peer, value); undirected: own half-edges
    /// (first `verif_outbound_len` entries of iter()). Also checks that every
    /// yielded edge has `n` itself as its near endpoint (panics otherwise).
    fn out_list(n: &Self::Node) -> Vec<(K, EV)>;
    /// directed: iter_in as (peer, value); undirected: received half-edges
    fn in_list(n: &Self::Node) -> Vec<(K, EV)>;
    /// a plain edge loop `for e in n.iter_out()` (directed, dir_in = false), `n.iter_in()`
    /// (dir_in = true; the edge is reported reversed, as the traversals do) or `n.iter()`
    /// (undirected); `body` runs between two `next()` calls
    fn edge_loop(n: &Self::Node, dir_in: bool, body: &mut dyn FnMut(K, K, EV));
    /// `for e in &node` (IntoIterator): directed = out edges, undirected = adjacency
    fn into_iter_list(n: &Self::Node) -> Vec<Triple>;
    /// redundant observers for the keys given, in the shape of `Obs` in Adjacency.tla
    fn obs(n: &Self::Node, keys: &[K]) -> Value;
    /// `e1 == e2` for all ordered pairs of the edges iterating `n` yields (`for e in &n`), row by row
    fn edge_eq_table(n: &Self::Node) -> Vec<bool>;
    /// every read-only query of a node, results dropped, NO cross-checks (safe to call while
    /// other threads mutate the node)
    fn plain_queries(n: &Self::Node, k: K);
    /// neighbour handle obtained through a lookup method (find_outbound / find_adjacent ...)
    fn find_handle(n: &Self::Node, k: K) -> Option<Self::Node>;
    /// handles obtained as endpoints of iterated edges of `n`: (peer key, handle)
    fn edge_endpoint_handles(n: &Self::Node) -> Vec<Self::Node>;
    /// Node comparisons: (cmp, partial_cmp, eq, lt) as strings/bools
    fn compare(a: &Self::Node, b: &Self::Node) -> Value;

    /// run one search / ordering; `cb` is called for every examined edge when
    /// q.meth != Plain. Unsupported combinations return Err.
    fn search(root: &Self::Node, q: &Query, cb: Cb) -> Result<SRes, String>;
    /// like `search` but also returns the node handles mentioned by the result
    /// still alive (for ownership checks)
    fn search_handles(root: &Self::Node, q: &Query, cb: Cb) -> Result<(SRes, Vec<Self::Node>), String>;

    // ---- container ----
    fn g_new() -> Self::Graph;
    fn g_insert(g: &mut Self::Graph, n: Self::Node) -> bool;
    fn g_get(g: &Self::Graph, k: K) -> Option<Self::Node>;
    fn g_index(g: &Self::Graph, k: K) -> Self::Node;
    fn g_contains(g: &Self::Graph, k: K) -> bool;
    fn g_len(g: &Self::Graph) -> usize;
    fn g_is_empty(g: &Self::Graph) -> bool;
    fn g_remove(g: &mut Self::Graph, k: K) -> Option<Self::Node>;
    fn g_to_vec(g: &Self::Graph) -> Vec<Self::Node>;
    fn g_iter(g: &Self::Graph) -> Vec<(K, Self::Node)>;
    fn g_roots(g: &Self::Graph) -> Option<Vec<Self::Node>>;
    fn g_leaves(g: &Self::Graph) -> Option<Vec<Self::Node>>;
    fn g_orphans(g: &Self::Graph) -> Vec<Self::Node>;
    fn g_to_dot(g: &Self::Graph) -> String;
    /// attribute callbacks selected by small integers (see container driver)
    fn g_to_dot_attr(g: &Self::Graph, ga: u8, na: u8, ea: u8) -> Option<String>;
    fn g_scc(g: &Self::Graph) -> Option<Vec<Vec<K>>>;
    fn g_to_json(g: &Self::Graph) -> Result<String, String>;
    fn g_from_json(s: &str) -> Result<Self::Graph, String>;
    fn g_to_cbor(g: &Self::Graph) -> Result<Vec<u8>, String>;
    fn g_from_cbor(b: &[u8]) -> Result<Self::Graph, String>;
    /// the same wire format with `String` keys (key i is written `skey(i)`): deserialise and
    /// project back to ids in the shape of `project_graph`
    fn g_strkeys_from(b: &[u8], json: bool, pad: usize) -> Result<Value, String>;
}

/// the string spelling of abstract key `k`: longer than 32 bytes, multi-byte characters at odd
/// (k odd) or even (k even) byte offsets, a 4-byte character at the end
pub fn skey(k: K) -> String {
    format!("{}{}\u{1F511}{}", "x".repeat(k as usize), "\u{e9}".repeat(20), k)
}
pub fn skey_rev(s: &str, pad: usize) -> K {
    (1..=(pad as K + 8)).find(|&i| skey(i) == s).unwrap_or(0)
}

#[doc(hidden)]
#[macro_export]
macro_rules! strkeys_body {
    ($g:ident, $split:expr) => {
        fn g_strkeys_from(b: &[u8], json: bool, pad: usize) -> Result<Value, String> {
            type SG = $g::Graph<String, NV, EV>;
            let gr: SG = if json {
                serde_json::from_slice::<SG>(b).map_err(|e| e.to_string())?
            } else {
                serde_cbor::from_slice::<SG>(b).map_err(|e| e.to_string())?
            };
            let mut keys: Vec<K> = vec![];
            let mut vals = vec![0i64; pad];
            let mut out: Vec<Vec<(K, EV)>> = vec![vec![]; pad];
            let mut inn: Vec<Vec<(K, EV)>> = vec![vec![]; pad];
            let mut beyond = vec![];
            for (k, n) in gr.iter() {
                assert!(n.key() == k, "VERIF-ACCESSOR: container key != node key");
                let id = skey_rev(k, pad);
                keys.push(id);
                if id >= 1 && (id as usize) <= pad {
                    vals[(id - 1) as usize] = *n.value();
                    let split: fn(&$g::Node<String, NV, EV>, usize) -> (Vec<(K, EV)>, Vec<(K, EV)>) = $split;
                    let (o, i) = split(n, pad);
                    out[(id - 1) as usize] = o;
                    inn[(id - 1) as usize] = i;
                } else {
                    beyond.push(id);
                }
            }
            keys.sort();
            Ok(json!({"keys": keys, "vals": vals, "out": out, "inn": inn, "beyond": beyond, "len": gr.len()}))
        }
    };
}

pub fn err_name(e: &gdsl::error::Error) -> &'static str {
    match e {
        gdsl::error::Error::EdgeNotFound => "EdgeNotFound",
        gdsl::error::Error::EdgeAlreadyExists => "EdgeAlreadyExists",
    }
}

pub fn attr_list(sel: u8, tag: &str, a: i64, b: i64) -> Option<Vec<(String, String)>> {
    match sel {
        0 => None,
        1 => Some(vec![(format!("{}a", tag), format!("{}", a))]),
        _ => Some(vec![
            (format!("{}a", tag), format!("{}", a)),
            (format!("{}b", tag), format!("{}", b)),
        ]),
    }
}

macro_rules! common_body {
    () => {
        fn node(k: K, v: NV) -> Self::Node {
            g::Node::new(k, v)
        }
        fn key(n: &Self::Node) -> K {
            *n.key()
        }
        fn val(n: &Self::Node) -> NV {
            *n.value()
        }
        fn deref_val(n: &Self::Node) -> NV {
            **n
        }
        fn connect(u: &Self::Node, v: &Self::Node, e: EV) {
            u.connect(v, e)
        }
        fn try_connect(u: &Self::Node, v: &Self::Node, e: EV) -> Result<(), &'static str> {
            u.try_connect(v, e).map_err(|e| err_name(&e))
        }
        fn disconnect(u: &Self::Node, k: K) -> Result<EV, &'static str> {
            u.disconnect(&k).map_err(|e| err_name(&e))
        }
        fn isolate(u: &Self::Node) {
            u.isolate()
        }
        fn compare(a: &Self::Node, b: &Self::Node) -> Value {
            let c = |o: std::cmp::Ordering| match o {
                std::cmp::Ordering::Less => "lt",
                std::cmp::Ordering::Equal => "eq",
                std::cmp::Ordering::Greater => "gt",
            };
            json!({
                "cmp": c(a.cmp(b)),
                "pcmp": a.partial_cmp(b).map(c),
                "eq": a == b,
                "ne": a != b,
                "lt": a < b,
                "le": a <= b,
                "gt": a > b,
                "ge": a >= b,
                "max_is_b": *std::cmp::max(a.clone(), b.clone()).key() == *b.key(),
            })
        }
        fn g_new() -> Self::Graph {
            g::Graph::new()
        }
        fn g_insert(gr: &mut Self::Graph, n: Self::Node) -> bool {
            gr.insert(n)
        }
        fn g_get(gr: &Self::Graph, k: K) -> Option<Self::Node> {
            gr.get(&k)
        }
        fn g_index(gr: &Self::Graph, k: K) -> Self::Node {
            gr[k].clone()
        }
        fn g_contains(gr: &Self::Graph, k: K) -> bool {
            gr.contains(&k)
        }
        fn g_len(gr: &Self::Graph) -> usize {
            gr.len()
        }
        fn g_is_empty(gr: &Self::Graph) -> bool {
            gr.is_empty()
        }
        fn g_remove(gr: &mut Self::Graph, k: K) -> Option<Self::Node> {
            gr.remove(&k)
        }
        fn g_to_vec(gr: &Self::Graph) -> Vec<Self::Node> {
            gr.to_vec()
        }
        fn g_iter(gr: &Self::Graph) -> Vec<(K, Self::Node)> {
            gr.iter().map(|(k, n)| (*k, n.clone())).collect()
        }
        fn g_orphans(gr: &Self::Graph) -> Vec<Self::Node> {
            gr.orphans()
        }
        fn g_to_dot(gr: &Self::Graph) -> String {
            gr.to_dot()
        }
        fn g_to_json(gr: &Self::Graph) -> Result<String, String> {
            serde_json::to_string(gr).map_err(|e| e.to_string())
        }
        fn g_from_json(s: &str) -> Result<Self::Graph, String> {
            serde_json::from_str::<Self::Graph>(s).map_err(|e| e.to_string())
        }
        fn g_to_cbor(gr: &Self::Graph) -> Result<Vec<u8>, String> {
            serde_cbor::to_vec(gr).map_err(|e| e.to_string())
        }
        fn g_from_cbor(b: &[u8]) -> Result<Self::Graph, String> {
            serde_cbor::from_slice::<Self::Graph>(b).map_err(|e| e.to_string())
        }
        fn search(root: &Self::Node, q: &Query, cb: Cb) -> Result<SRes, String> {
            Self::search_handles(root, q, cb).map(|r| r.0)
        }
    };
}

/// the three result shapes of bfs/dfs/pfs builders
macro_rules! run_entries {
    ($b:ident, $q:ident) => {{
        match $q.entry {
            Entry::Search => Ok(match $b.search() {
                Some(n) => (SRes::Node(*n.key()), vec![n]),
                None => (SRes::None, vec![]),
            }),
            Entry::SearchPath => Ok(match { if $q.repeat { let _ = $b.search_path(); } $b.search_path() } {
                Some(p) => path_res!(p),
                None => (SRes::None, vec![]),
            }),
            Entry::SearchCycle => Ok(match $b.search_cycle() {
                Some(p) => path_res!(p),
                None => (SRes::None, vec![]),
            }),
            _ => Err(format!("entry {:?} not available on {:?}", $q.entry, $q.kind)),
        }
    }};
}

/// target / transpose of a search builder (no-ops when the query does not ask for them)
macro_rules! opts {
    ($b:ident, $q:ident) => {
        if let Some(ref t) = $q.target { $b = $b.target(t); }
        if $q.transpose { $b = $b.transpose(); }
    };
}

macro_rules! opts_u {
    ($b:ident, $q:ident) => {
        if let Some(ref t) = $q.target { $b = $b.target(t); }
    };
}

macro_rules! with_method {
    ($b:expr, $q:ident, $cb:ident, |$bb:ident| $body:expr) => {{
        match $q.meth {
            Meth::Plain => {
                let mut $bb = $b;
                $body
            }
            Meth::ForEach => {
                let mut f = |e: &g::Edge<K, NV, EV>| {
                    $cb(*e.0.key(), *e.1.key(), e.2);
                };
                let mut $bb = $b.for_each(&mut f);
                $body
            }
            Meth::Filter => {
                let mut f = |e: &g::Edge<K, NV, EV>| $cb(*e.0.key(), *e.1.key(), e.2);
                let mut $bb = $b.filter(&mut f);
                $body
            }
        }
    }};
}

/// Path -> (edge triples, handles), cross-checking the redundant Path accessors.
/// (A macro because the Path type of a flavour cannot be named from outside.)
macro_rules! path_res {
    ($p:expr) => {{
        let p = $p;
        let edges: Vec<Triple> = p.iter_edges().map(|e| (*e.0.key(), *e.1.key(), e.2)).collect();
        let ve: Vec<Triple> = p.to_vec_edges().iter().map(|e| (*e.0.key(), *e.1.key(), e.2)).collect();
        assert!(edges == ve, "VERIF-ACCESSOR: Path::to_vec_edges != iter_edges");
        let nodes: Vec<K> = p.to_vec_nodes().iter().map(|n| *n.key()).collect();
        let nodes2: Vec<K> = p.iter_nodes().map(|n| *n.key()).collect();
        assert!(nodes == nodes2, "VERIF-ACCESSOR: Path::to_vec_nodes != iter_nodes");
        if !edges.is_empty() {
            let mut exp = vec![edges[0].0];
            exp.extend(edges.iter().map(|e| e.1));
            assert!(nodes == exp, "VERIF-ACCESSOR: Path nodes {:?} do not follow its edges {:?}", nodes, edges);
            assert!(p.len() == edges.len() + 1, "VERIF-ACCESSOR: Path::len");
            let fe = p.first_edge().unwrap();
            assert!((*fe.0.key(), *fe.1.key(), fe.2) == edges[0], "VERIF-ACCESSOR: first_edge");
            let le = p.last_edge().unwrap();
            assert!((*le.0.key(), *le.1.key(), le.2) == *edges.last().unwrap(), "VERIF-ACCESSOR: last_edge");
            assert!(*p.last_node().unwrap().key() == edges.last().unwrap().1, "VERIF-ACCESSOR: last_node");
            for (i, e) in edges.iter().enumerate() {
                let pe = &p[i];
                assert!((*pe.0.key(), *pe.1.key(), pe.2) == *e, "VERIF-ACCESSOR: Path index");
            }
        }
        let mut hs = Vec::new();
        for e in p.iter_edges() {
            hs.push(e.0.clone());
            hs.push(e.1.clone());
        }
        (SRes::Path(edges), hs)
    }};
}

macro_rules! directed_flavour {
    ($modname:ident, $ty:ident, $path:path, $name:expr, $sync:expr, $has_attr:expr) => {
        pub mod $modname {
            use super::*;
            use $path as g;
            pub struct $ty;
            impl Fl for $ty {
                const NAME: &'static str = $name;
                const DIRECTED: bool = true;
                const SYNC: bool = $sync;
                type Node = g::Node<K, NV, EV>;
                type Graph = g::Graph<K, NV, EV>;
                common_body!();
                strkeys_body!(g, |n, pad| (
                    n.iter_out().map(|e| (skey_rev(e.1.key(), pad), e.2)).collect(),
                    n.iter_in().map(|e| (skey_rev(e.0.key(), pad), e.2)).collect()
                ));

                fn out_list(n: &Self::Node) -> Vec<(K, EV)> {
                    n.iter_out()
                        .map(|e| {
                            assert!(*e.0.key() == *n.key(), "VERIF-ENDPOINT: iter_out source");
                            assert!(*e.source().key() == *n.key() && e.target().key() == e.1.key() && *e.value() == e.2, "VERIF-ACCESSOR: Edge accessors");
                            (*e.1.key(), e.2)
                        })
                        .collect()
                }
                fn in_list(n: &Self::Node) -> Vec<(K, EV)> {
                    n.iter_in()
                        .map(|e| {
                            assert!(*e.1.key() == *n.key(), "VERIF-ENDPOINT: iter_in target");
                            let r = e.reverse();
                            assert!(r.0.key() == e.1.key() && r.1.key() == e.0.key() && r.2 == e.2, "VERIF-ACCESSOR: Edge::reverse");
                            (*e.0.key(), e.2)
                        })
                        .collect()
                }
                fn into_iter_list(n: &Self::Node) -> Vec<Triple> {
                    let mut v = vec![];
                    for e in n {
                        v.push((*e.0.key(), *e.1.key(), e.2));
                    }
                    v
                }
                fn edge_loop(n: &Self::Node, dir_in: bool, body: &mut dyn FnMut(K, K, EV)) {
                    // driven the way `collect()` / `extend()` drive an iterator: `size_hint()` may be
                    // asked for between any two `next()` calls
                    if dir_in {
                        let mut it = n.iter_in();
                        loop {
                            let _ = it.size_hint();
                            let Some(e) = it.next() else { break };
                            body(*e.1.key(), *e.0.key(), e.2);
                        }
                    } else {
                        let mut it = n.iter_out();
                        loop {
                            let _ = it.size_hint();
                            let Some(e) = it.next() else { break };
                            body(*e.0.key(), *e.1.key(), e.2);
                        }
                    }
                }
                fn obs(n: &Self::Node, keys: &[K]) -> Value {
                    let conn: Vec<bool> = keys.iter().map(|k| n.is_connected(k)).collect();
                    let fo: Vec<bool> = keys
                        .iter()
                        .map(|k| match n.find_outbound(k) {
                            Some(h) => {
                                assert!(h.key() == k, "VERIF-ACCESSOR: find_outbound returned another key");
                                true
                            }
                            None => false,
                        })
                        .collect();
                    let fi: Vec<bool> = keys
                        .iter()
                        .map(|k| match n.find_inbound(k) {
                            Some(h) => {
                                assert!(h.key() == k, "VERIF-ACCESSOR: find_inbound returned another key");
                                true
                            }
                            None => false,
                        })
                        .collect();
                    json!({"od": n.out_degree(), "id": n.in_degree(), "root": n.is_root(),
                           "leaf": n.is_leaf(), "orphan": n.is_orphan(), "conn": conn, "fo": fo, "fi": fi})
                }
                fn edge_eq_table(n: &Self::Node) -> Vec<bool> {
                    let es: Vec<_> = n.into_iter().collect();
                    let mut t = vec![];
                    for a in &es { for b in &es { t.push(a == b); } }
                    t
                }
                fn plain_queries(n: &Self::Node, k: K) {
                    let _ = (n.out_degree(), n.in_degree(), n.is_root(), n.is_leaf(), n.is_orphan(), n.is_connected(&k));
                    let _ = n.find_outbound(&k);
                    let _ = n.find_inbound(&k);
                }
                fn find_handle(n: &Self::Node, k: K) -> Option<Self::Node> {
                    n.find_outbound(&k).or_else(|| n.find_inbound(&k))
                }
                fn edge_endpoint_handles(n: &Self::Node) -> Vec<Self::Node> {
                    let mut v = vec![];
                    for e in n.iter_out() {
                        v.push(e.0.clone());
                        v.push(e.1.clone());
                    }
                    for e in n.iter_in() {
                        v.push(e.0.clone());
                        v.push(e.1.clone());
                    }
                    v
                }
                fn search_handles(root: &Self::Node, q: &Query, cb: Cb) -> Result<(SRes, Vec<Self::Node>), String> {
                    match q.kind {
                        Kind::Bfs => {
                            let mut b = root.bfs();
                            if !q.late { opts!(b, q); }
                            with_method!(b, q, cb, |bb| { if q.late { opts!(bb, q); } run_entries!(bb, q) })
                        }
                        Kind::Dfs => {
                            let mut b = root.dfs();
                            if !q.late { opts!(b, q); }
                            with_method!(b, q, cb, |bb| { if q.late { opts!(bb, q); } run_entries!(bb, q) })
                        }
                        Kind::PfsMin | Kind::PfsMax => {
                            let mut b = root.pfs();
                            if !q.late { b = if q.kind == Kind::PfsMin { b.min() } else { b.max() }; opts!(b, q); }
                            with_method!(b, q, cb, |bb| {
                                if q.late { bb = if q.kind == Kind::PfsMin { bb.min() } else { bb.max() }; opts!(bb, q); }
                                run_entries!(bb, q)
                            })
                        }
                        Kind::Pre | Kind::Post => {
                            if q.target.is_some() { return Err("orderings take no target".into()); }
                            let mut b = if q.kind == Kind::Pre { root.preorder() } else { root.postorder() };
                            if q.transpose && !q.late { b = b.transpose(); }
                            with_method!(b, q, cb, |bb| { if q.transpose && q.late { bb = bb.transpose(); } match q.entry {
                                Entry::SearchNodes => {
                                    if q.repeat { let _ = bb.search_edges(); }
                                    let ns = bb.search_nodes();
                                    Ok((SRes::Nodes(ns.iter().map(|n| *n.key()).collect()), ns))
                                }
                                Entry::SearchEdges => {
                                    if q.repeat { let _ = bb.search_nodes(); }
                                    let es = bb.search_edges();
                                    let mut hs = vec![];
                                    for e in &es { hs.push(e.0.clone()); hs.push(e.1.clone()); }
                                    Ok((SRes::Edges(es.iter().map(|e| (*e.0.key(), *e.1.key(), e.2)).collect()), hs))
                                }
                                _ => Err(format!("entry {:?} not available on orderings", q.entry)),
                            }})
                        }
                    }
                }
                fn g_roots(gr: &Self::Graph) -> Option<Vec<Self::Node>> {
                    Some(gr.roots())
                }
                fn g_leaves(gr: &Self::Graph) -> Option<Vec<Self::Node>> {
                    Some(gr.leaves())
                }
                fn g_to_dot_attr(gr: &Self::Graph, ga: u8, na: u8, ea: u8) -> Option<String> {
                    Some(gr.to_dot_with_attr(
                        &|gg| attr_list(ga, "g", gg.len() as i64, 7),
                        &|n| attr_list(na, "n", *n.key() as i64, *n.value()),
                        &|u, v, e| attr_list(ea, "e", (*u.key() * 10 + *v.key()) as i64, *e),
                    ))
                }
                fn g_scc(gr: &Self::Graph) -> Option<Vec<Vec<K>>> {
                    Some(gr.scc().iter().map(|c| c.iter().map(|n| *n.key()).collect()).collect())
                }
            }
        }
    };
}

macro_rules! undirected_flavour {
    ($modname:ident, $ty:ident, $path:path, $name:expr, $sync:expr, $attr:tt) => {
        pub mod $modname {
            use super::*;
            use $path as g;
            pub struct $ty;
            fn adj(n: &g::Node<K, NV, EV>) -> Vec<(K, EV)> {
                n.iter()
                    .map(|e| {
                        assert!(*e.0.key() == *n.key(), "VERIF-ENDPOINT: iter source");
                        assert!(*e.source().key() == *n.key() && e.target().key() == e.1.key() && *e.value() == e.2, "VERIF-ACCESSOR: Edge accessors");
                        let r = e.reverse();
                        assert!(r.0.key() == e.1.key() && r.1.key() == e.0.key() && r.2 == e.2, "VERIF-ACCESSOR: Edge::reverse");
                        (*e.1.key(), e.2)
                    })
                    .collect()
            }
            impl Fl for $ty {
                const NAME: &'static str = $name;
                const DIRECTED: bool = false;
                const SYNC: bool = $sync;
                type Node = g::Node<K, NV, EV>;
                type Graph = g::Graph<K, NV, EV>;
                common_body!();
                strkeys_body!(g, |n, pad| {
                    let a: Vec<(K, EV)> = n.iter().map(|e| (skey_rev(e.1.key(), pad), e.2)).collect();
                    let k = n.verif_outbound_len().min(a.len());
                    (a[..k].to_vec(), a[k..].to_vec())
                });

                fn out_list(n: &Self::Node) -> Vec<(K, EV)> {
                    let a = adj(n);
                    let k = n.verif_outbound_len().min(a.len());
                    a[..k].to_vec()
                }
                fn in_list(n: &Self::Node) -> Vec<(K, EV)> {
                    let a = adj(n);
                    let k = n.verif_outbound_len().min(a.len());
                    a[k..].to_vec()
                }
                fn into_iter_list(n: &Self::Node) -> Vec<Triple> {
                    let mut v = vec![];
                    for e in n {
                        v.push((*e.0.key(), *e.1.key(), e.2));
                    }
                    v
                }
                fn edge_loop(n: &Self::Node, _dir_in: bool, body: &mut dyn FnMut(K, K, EV)) {
                    let mut it = n.iter();
                    loop {
                        let _ = it.size_hint();
                        let Some(e) = it.next() else { break };
                        body(*e.0.key(), *e.1.key(), e.2);
                    }
                }
                fn obs(n: &Self::Node, keys: &[K]) -> Value {
                    let conn: Vec<bool> = keys
                        .iter()
                        .map(|k| {
                            let c = n.is_connected(k);
                            match n.find_adjacent(k) {
                                Some(h) => {
                                    assert!(h.key() == k, "VERIF-ACCESSOR: find_adjacent returned another key");
                                    assert!(c, "VERIF-ACCESSOR: find_adjacent is Some but is_connected is false");
                                }
                                None => assert!(!c, "VERIF-ACCESSOR: find_adjacent is None but is_connected is true"),
                            }
                            c
                        })
                        .collect();
                    json!({"deg": n.degree(), "orphan": n.is_orphan(), "conn": conn})
                }
                fn edge_eq_table(n: &Self::Node) -> Vec<bool> {
                    let es: Vec<_> = n.into_iter().collect();
                    let mut t = vec![];
                    for a in &es { for b in &es { t.push(a == b); } }
                    t
                }
                fn plain_queries(n: &Self::Node, k: K) {
                    let _ = (n.degree(), n.is_orphan(), n.is_connected(&k));
                    let _ = n.find_adjacent(&k);
                }
                fn find_handle(n: &Self::Node, k: K) -> Option<Self::Node> {
                    n.find_adjacent(&k)
                }
                fn edge_endpoint_handles(n: &Self::Node) -> Vec<Self::Node> {
                    let mut v = vec![];
                    for e in n.iter() {
                        v.push(e.0.clone());
                        v.push(e.1.clone());
                    }
                    v
                }
                fn search_handles(root: &Self::Node, q: &Query, cb: Cb) -> Result<(SRes, Vec<Self::Node>), String> {
                    if q.transpose { return Err("no transpose on undirected flavours".into()); }
                    match q.kind {
                        Kind::Bfs => {
                            let mut b = root.bfs();
                            if !q.late { opts_u!(b, q); }
                            with_method!(b, q, cb, |bb| { if q.late { opts_u!(bb, q); } run_entries!(bb, q) })
                        }
                        Kind::Dfs => {
                            let mut b = root.dfs();
                            if !q.late { opts_u!(b, q); }
                            with_method!(b, q, cb, |bb| { if q.late { opts_u!(bb, q); } run_entries!(bb, q) })
                        }
                        Kind::PfsMin | Kind::PfsMax => {
                            let mut b = root.pfs();
                            if !q.late { b = if q.kind == Kind::PfsMin { b.min() } else { b.max() }; opts_u!(b, q); }
                            with_method!(b, q, cb, |bb| {
                                if q.late { bb = if q.kind == Kind::PfsMin { bb.min() } else { bb.max() }; opts_u!(bb, q); }
                                run_entries!(bb, q)
                            })
                        }
                        Kind::Pre | Kind::Post => {
                            if q.target.is_some() { return Err("orderings take no target".into()); }
                            let mut b = root.order();
                            if !q.late { b = if q.kind == Kind::Pre { b.pre() } else { b.post() }; }
                            with_method!(b, q, cb, |bb| { if q.late { bb = if q.kind == Kind::Pre { bb.pre() } else { bb.post() }; } match q.entry {
                                Entry::SearchNodes => {
                                    if q.repeat { let _ = bb.search_edges(); }
                                    let ns = bb.search_nodes();
                                    Ok((SRes::Nodes(ns.iter().map(|n| *n.key()).collect()), ns))
                                }
                                Entry::SearchEdges => {
                                    if q.repeat { let _ = bb.search_nodes(); }
                                    let es = bb.search_edges();
                                    let mut hs = vec![];
                                    for e in &es { hs.push(e.0.clone()); hs.push(e.1.clone()); }
                                    Ok((SRes::Edges(es.iter().map(|e| (*e.0.key(), *e.1.key(), e.2)).collect()), hs))
                                }
                                _ => Err(format!("entry {:?} not available on orderings", q.entry)),
                            }})
                        }
                    }
                }
                fn g_roots(_gr: &Self::Graph) -> Option<Vec<Self::Node>> {
                    None
                }
                fn g_leaves(_gr: &Self::Graph) -> Option<Vec<Self::Node>> {
                    None
                }
                fn g_to_dot_attr(_gr: &Self::Graph, _ga: u8, _na: u8, _ea: u8) -> Option<String> {
                    undirected_attr!($attr, _gr, _ga, _na, _ea)
                }
                fn g_scc(_gr: &Self::Graph) -> Option<Vec<Vec<K>>> {
                    None
                }
            }
        }
    };
}

macro_rules! undirected_attr {
    (yes, $gr:ident, $ga:ident, $na:ident, $ea:ident) => {
        Some($gr.to_dot_with_attr(
            &|gg| attr_list($ga, "g", gg.len() as i64, 7),
            &|n| attr_list($na, "n", *n.key() as i64, *n.value()),
            &|u, v, e| attr_list($ea, "e", (*u.key() * 10 + *v.key()) as i64, *e),
        ))
    };
    (no, $gr:ident, $ga:ident, $na:ident, $ea:ident) => {
        None
    };
}

directed_flavour!(fl_digraph, Digraph, gdsl::digraph, "digraph", false, true);
directed_flavour!(fl_sync_digraph, SyncDigraph, gdsl::sync_digraph, "sync_digraph", true, true);
undirected_flavour!(fl_ungraph, Ungraph, gdsl::ungraph, "ungraph", false, yes);
undirected_flavour!(fl_sync_ungraph, SyncUngraph, gdsl::sync_ungraph, "sync_ungraph", true, no);

pub use fl_digraph::Digraph;
pub use fl_sync_digraph::SyncDigraph;
pub use fl_sync_ungraph::SyncUngraph;
pub use fl_ungraph::Ungraph;

pub const FLAVOURS: [&str; 4] = ["digraph", "sync_digraph", "ungraph", "sync_ungraph"];

/// dispatch a generic function over the flavour named at run time
#[macro_export]
macro_rules! with_flavour {
    ($name:expr, $f:ident ( $($arg:expr),* )) => {
        match $name {
            "digraph" => $f::<$crate::Digraph>($($arg),*),
            "sync_digraph" => $f::<$crate::SyncDigraph>($($arg),*),
            "ungraph" => $f::<$crate::Ungraph>($($arg),*),
            "sync_ungraph" => $f::<$crate::SyncUngraph>($($arg),*),
            other => panic!("unknown flavour {}", other),
        }
    };
}
