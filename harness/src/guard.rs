//! Running code under test so that a panic, a self-deadlock or a hang is an
//! *outcome* (data), not a crash of the harness.

use std::cell::RefCell;
use std::panic::{self, AssertUnwindSafe};
use std::sync::atomic::{AtomicBool, AtomicU64, Ordering};
use std::sync::{Arc, Once};

thread_local! {
    static LAST_PANIC: RefCell<Option<String>> = const { RefCell::new(None) };
    /// single-threaded self-deadlock detection armed on this thread
    static ST_DETECT: RefCell<bool> = const { RefCell::new(false) };
    /// panics on this thread are outcomes of code under test (scenario / stress threads): never print them
    static EXPECT_PANICS: RefCell<bool> = const { RefCell::new(false) };
}

static INIT: Once = Once::new();
static QUIET: AtomicBool = AtomicBool::new(true);
/// number of lock points seen (evidence that the hook is live)
pub static LOCK_POINTS: AtomicU64 = AtomicU64::new(0);

pub const DEADLOCK_MARK: &str = "VERIF-DEADLOCK";
pub const HANG_MARK: &str = "VERIF-HANG";

/// Install the quiet panic hook (records the message per thread) once.
pub fn init() {
    INIT.call_once(|| {
        let default = panic::take_hook();
        panic::set_hook(Box::new(move |info| {
            let msg = if let Some(s) = info.payload().downcast_ref::<&str>() {
                s.to_string()
            } else if let Some(s) = info.payload().downcast_ref::<String>() {
                s.clone()
            } else {
                "<non-string panic>".to_string()
            };
            let loc = info
                .location()
                .map(|l| format!(" @{}:{}", l.file(), l.line()))
                .unwrap_or_default();
            LAST_PANIC.with(|p| *p.borrow_mut() = Some(format!("{}{}", msg, loc)));
            // a panic outside guarded code is a defect of the harness itself: show it
            let in_guarded = ST_DETECT.with(|d| *d.borrow()) || EXPECT_PANICS.with(|d| *d.borrow());
            if !QUIET.load(Ordering::Relaxed) || !in_guarded {
                default(info);
            }
        }));
    });
}

/// mark the current thread as one that runs code under test whose panics are data
pub fn expect_panics_on_this_thread() {
    EXPECT_PANICS.with(|d| *d.borrow_mut() = true);
}

pub fn set_quiet(q: bool) {
    QUIET.store(q, Ordering::Relaxed);
}

/// Install the single-threaded lock-point callback: on a thread that armed
/// detection, an acquisition that would block can only be waiting for a guard
/// held by the same thread, i.e. a self-deadlock; it is turned into a panic
/// carrying DEADLOCK_MARK.
pub fn install_single_thread_lock_hook() {
    use gdsl::verif_hook::{set_hook, Mode, Probe};
    set_hook(Some(Arc::new(|probe: &dyn Probe, mode: Mode| {
        LOCK_POINTS.fetch_add(1, Ordering::Relaxed);
        let armed = ST_DETECT.with(|d| *d.borrow());
        if armed {
            let ok = match mode {
                Mode::Read => probe.try_read_ok(),
                Mode::Write => probe.try_write_ok(),
            };
            if !ok {
                panic!("{}: {:?} lock requested while the same thread holds it", DEADLOCK_MARK, mode);
            }
        }
    })));
}

pub fn remove_lock_hook() {
    gdsl::verif_hook::set_hook(None);
}

/// Outcome of guarded code
#[derive(Debug, Clone, PartialEq)]
pub enum Guarded<T> {
    Ok(T),
    Panic(String),
    Deadlock(String),
}

impl<T> Guarded<T> {
    pub fn failure(&self) -> Option<String> {
        match self {
            Guarded::Ok(_) => None,
            Guarded::Panic(m) => Some(format!("panic:{}", m)),
            Guarded::Deadlock(m) => Some(format!("deadlock:{}", m)),
        }
    }
}

/// Run `f` on the current thread; panics are caught, self-deadlocks of the sync
/// flavours are detected through the lock-point hook.
pub fn guarded<T>(f: impl FnOnce() -> T) -> Guarded<T> {
    init();
    LAST_PANIC.with(|p| *p.borrow_mut() = None);
    let prev = ST_DETECT.with(|d| std::mem::replace(&mut *d.borrow_mut(), true));
    let r = panic::catch_unwind(AssertUnwindSafe(f));
    ST_DETECT.with(|d| *d.borrow_mut() = prev);
    match r {
        Ok(v) => Guarded::Ok(v),
        Err(_) => {
            let msg = LAST_PANIC
                .with(|p| p.borrow_mut().take())
                .unwrap_or_else(|| "<unknown>".into());
            if msg.contains(DEADLOCK_MARK) {
                Guarded::Deadlock(msg)
            } else {
                Guarded::Panic(msg)
            }
        }
    }
}
