//! Reading JSON lines printed by TLC with PrintT(ToJson(..)): each is a TLA+
//! string literal `"{\"k\":...}"` on its own line.

use serde_json::Value;
use std::io::{BufRead, BufReader};

pub fn unescape(line: &str) -> Option<String> {
    let l = line.trim_end();
    if !(l.starts_with("\"{") || l.starts_with("\"[")) || !l.ends_with('"') {
        return None;
    }
    let inner = &l[1..l.len() - 1];
    let mut s = String::with_capacity(inner.len());
    let mut it = inner.chars();
    while let Some(c) = it.next() {
        if c == '\\' {
            match it.next() {
                Some('"') => s.push('"'),
                Some('\\') => s.push('\\'),
                Some('n') => s.push('\n'),
                Some('t') => s.push('\t'),
                Some(o) => {
                    s.push('\\');
                    s.push(o)
                }
                None => s.push('\\'),
            }
        } else {
            s.push(c);
        }
    }
    Some(s)
}

/// iterate over the JSON case lines of a TLC output file
pub fn for_each_case(path: &str, mut f: impl FnMut(Value)) -> std::io::Result<usize> {
    let file = std::fs::File::open(path)?;
    let rd = BufReader::with_capacity(1 << 20, file);
    let mut n = 0;
    for line in rd.lines() {
        let line = line?;
        if let Some(js) = unescape(&line) {
            match serde_json::from_str::<Value>(&js) {
                Ok(v) => {
                    n += 1;
                    f(v)
                }
                Err(e) => panic!("unparsable TLC JSON line ({}): {}", e, &js[..js.len().min(200)]),
            }
        }
    }
    Ok(n)
}
