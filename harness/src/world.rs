//! A world = N live nodes of one flavour with ids/keys 1..N, the projection
//! function to the abstract state of Adjacency.tla, and construction of a given
//! abstract state through the public API.

use crate::flavour::*;
use crate::guard::*;
use serde::{Deserialize, Serialize};
use serde_json::{json, Value};

pub type Lists = Vec<Vec<(K, EV)>>;

#[derive(Clone, Debug, PartialEq, Eq, Serialize, Deserialize, Hash)]
pub struct AState {
    pub out: Lists,
    pub inn: Lists,
}

impl AState {
    pub fn empty(n: usize) -> Self {
        AState { out: vec![vec![]; n], inn: vec![vec![]; n] }
    }
    pub fn n(&self) -> usize {
        self.out.len()
    }
    pub fn edges(&self) -> usize {
        self.out.iter().map(|l| l.len()).sum()
    }
    /// a connect order (u, v, e) that builds exactly these lists, or None when
    /// the lists are not mirror-consistent / not linearisable
    pub fn linearise(&self) -> Option<Vec<Triple>> {
        let n = self.n();
        // edge ids: (u, a) for position a of out[u]; partner position in inn[v]
        let mut ids = vec![];
        let mut partner = std::collections::HashMap::new();
        for u in 0..n {
            for (a, &(v, e)) in self.out[u].iter().enumerate() {
                let vi = (v as usize).checked_sub(1)?;
                if vi >= n {
                    return None;
                }
                let rank = self.out[u][..=a].iter().filter(|x| x.0 == v).count();
                // rank-th entry of inn[v] with peer u+1
                let mut cnt = 0;
                let mut found = None;
                for (b, &(p, e2)) in self.inn[vi].iter().enumerate() {
                    if p as usize == u + 1 {
                        cnt += 1;
                        if cnt == rank {
                            if e2 != e {
                                return None;
                            }
                            found = Some(b);
                            break;
                        }
                    }
                }
                let b = found?;
                partner.insert((vi, b), ids.len());
                ids.push((u, a, vi, b, e));
            }
        }
        let total_in: usize = self.inn.iter().map(|l| l.len()).sum();
        if total_in != ids.len() || partner.len() != ids.len() {
            return None;
        }
        // precedence: previous in out[u], previous in inn[v]
        let m = ids.len();
        let mut idx_of_out = std::collections::HashMap::new();
        for (i, &(u, a, _, _, _)) in ids.iter().enumerate() {
            idx_of_out.insert((u, a), i);
        }
        let mut done = vec![false; m];
        let mut order = vec![];
        for _ in 0..m {
            let mut progressed = false;
            for i in 0..m {
                if done[i] {
                    continue;
                }
                let (u, a, vi, b, e) = ids[i];
                let ok_out = a == 0 || done[idx_of_out[&(u, a - 1)]];
                let ok_in = b == 0 || done[partner[&(vi, b - 1)]];
                if ok_out && ok_in {
                    done[i] = true;
                    order.push(((u + 1) as K, (vi + 1) as K, e));
                    progressed = true;
                    break;
                }
            }
            if !progressed {
                return None;
            }
        }
        Some(order)
    }
}

#[derive(Clone, Debug, PartialEq)]
pub enum Op {
    Connect(K, K, EV),
    TryConnect(K, K, EV),
    Disconnect(K, K),
    Isolate(K),
}

impl Op {
    pub fn from_json(v: &Value) -> Op {
        let a = v.as_array().expect("op array");
        let n = |i: usize| a[i].as_i64().expect("op int");
        match a[0].as_str().expect("op name") {
            "connect" => Op::Connect(n(1) as K, n(2) as K, n(3)),
            "try_connect" => Op::TryConnect(n(1) as K, n(2) as K, n(3)),
            "disconnect" => Op::Disconnect(n(1) as K, n(2) as K),
            "isolate" => Op::Isolate(n(1) as K),
            o => panic!("unknown op {}", o),
        }
    }
    pub fn to_json(&self) -> Value {
        match self {
            Op::Connect(u, v, e) => json!(["connect", u, v, e]),
            Op::TryConnect(u, v, e) => json!(["try_connect", u, v, e]),
            Op::Disconnect(u, k) => json!(["disconnect", u, k]),
            Op::Isolate(u) => json!(["isolate", u]),
        }
    }
    pub fn subject(&self) -> K {
        match self {
            Op::Connect(u, ..) | Op::TryConnect(u, ..) | Op::Disconnect(u, _) | Op::Isolate(u) => *u,
        }
    }
}

pub const HANDLE_VARIANTS: usize = 7;
pub const HANDLE_NAMES: [&str; HANDLE_VARIANTS] =
    ["original", "clone", "container_get", "container_index", "edge_endpoint", "find", "search_result"];

pub struct World<F: Fl> {
    pub nodes: Vec<F::Node>,
    pub graph: F::Graph,
    pub keys: Vec<K>,
}

impl<F: Fl> World<F> {
    pub fn new(n: usize, vals: Option<&[NV]>) -> Self {
        let mut nodes = vec![];
        let mut graph = F::g_new();
        for i in 0..n {
            let nd = F::node((i + 1) as K, vals.map(|v| v[i]).unwrap_or(0));
            assert!(F::g_insert(&mut graph, nd.clone()));
            nodes.push(nd);
        }
        World { nodes, graph, keys: (1..=n as K).collect() }
    }

    pub fn node(&self, id: K) -> &F::Node {
        &self.nodes[(id - 1) as usize]
    }

    /// build the abstract state through connect() calls only
    pub fn build(st: &AState, vals: Option<&[NV]>) -> Result<Self, String> {
        let order = st.linearise().ok_or_else(|| format!("state not linearisable: {:?}", st))?;
        let w = Self::new(st.n(), vals);
        for (u, v, e) in order {
            F::connect(w.node(u), w.node(v), e);
        }
        Ok(w)
    }

    pub fn project(&self) -> AState {
        AState {
            out: self.nodes.iter().map(|n| F::out_list(n)).collect(),
            inn: self.nodes.iter().map(|n| F::in_list(n)).collect(),
        }
    }

    pub fn obs(&self) -> Vec<Value> {
        self.nodes.iter().map(|n| F::obs(n, &self.keys)).collect()
    }

    /// a handle to node `id` of the requested provenance; (handle, provenance actually used)
    pub fn handle(&self, id: K, variant: usize) -> (F::Node, usize) {
        let orig = self.node(id);
        match variant % HANDLE_VARIANTS {
            0 => (orig.clone(), 0), // a fresh clone of the original binding is the original Rc/Arc
            1 => (orig.clone().clone(), 1),
            2 => match F::g_get(&self.graph, id) {
                Some(h) => (h, 2),
                None => (orig.clone(), 1),
            },
            3 => (F::g_index(&self.graph, id), 3),
            4 => {
                for n in &self.nodes {
                    for h in F::edge_endpoint_handles(n) {
                        if F::key(&h) == id {
                            return (h, 4);
                        }
                    }
                }
                (orig.clone(), 1)
            }
            5 => {
                for n in &self.nodes {
                    if let Some(h) = F::find_handle(n, id) {
                        return (h, 5);
                    }
                }
                (orig.clone(), 1)
            }
            _ => {
                for n in &self.nodes {
                    if F::key(n) == id {
                        continue;
                    }
                    let q = Query { kind: Kind::Bfs, entry: Entry::Search, target: Some(id), transpose: false, meth: Meth::Plain, repeat: false, late: false };
                    let mut cb = |_: K, _: K, _: EV| true;
                    if let Ok((SRes::Node(k), hs)) = F::search_handles(n, &q, &mut cb) {
                        if k == id && !hs.is_empty() {
                            return (hs[0].clone(), 6);
                        }
                    }
                }
                (orig.clone(), 1)
            }
        }
    }

    /// perform `op` through handles of provenance `variant`; result as the spec names it
    pub fn apply(&self, op: &Op, variant: usize) -> (Value, usize) {
        let (h, used) = self.handle(op.subject(), variant);
        let r = match op {
            Op::Connect(_, v, e) => {
                let (hv, _) = self.handle(*v, variant + 1);
                guarded(|| {
                    F::connect(&h, &hv, *e);
                    json!("ok")
                })
            }
            Op::TryConnect(_, v, e) => {
                let (hv, _) = self.handle(*v, variant + 1);
                guarded(|| match F::try_connect(&h, &hv, *e) {
                    Ok(()) => json!("ok"),
                    Err(s) => json!(s),
                })
            }
            Op::Disconnect(_, k) => guarded(|| match F::disconnect(&h, *k) {
                Ok(e) => json!(e),
                Err(s) => json!(s),
            }),
            Op::Isolate(_) => guarded(|| {
                F::isolate(&h);
                json!("ok")
            }),
        };
        match r {
            Guarded::Ok(v) => (v, used),
            other => (json!(other.failure().unwrap()), used),
        }
    }

    /// projection that survives a broken world (panic inside an observer)
    pub fn project_guarded(&self) -> Result<AState, String> {
        match guarded(|| self.project()) {
            Guarded::Ok(s) => Ok(s),
            other => Err(other.failure().unwrap()),
        }
    }
}
