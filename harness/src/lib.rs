//! Conformance harness binding the TLA+ specification in /verif/spec to the
//! gdsl implementation in /repo (built with `--cfg gdsl_verif`).
//!
//! The harness contains no oracle: it executes cases emitted by TLC on the real
//! code and compares JSON (spec -> impl), or records what the real code does as
//! ndjson events for TLC to validate (impl -> spec).

pub mod flavour;
pub mod guard;
pub mod own;
pub mod tlcio;
pub mod world;

pub use flavour::*;
pub use guard::*;
pub use world::*;
