//! C19: drop-counting payloads and replay of the ownership cases of MC_Ownership.

use crate::guard::*;
use crate::tlcio;
use crate::world::{AState, Lists};
use serde_json::{json, Value};
use std::collections::HashSet;
use std::sync::atomic::{AtomicUsize, Ordering};

const MAXTOK: usize = 64;
static CREATED: [AtomicUsize; MAXTOK] = [const { AtomicUsize::new(0) }; MAXTOK];
static DROPPED: [AtomicUsize; MAXTOK] = [const { AtomicUsize::new(0) }; MAXTOK];

/// node payload whose every instance (clones included) is counted
#[derive(Debug, PartialEq, Eq, PartialOrd, Ord)]
pub struct Token {
    pub id: usize,
}
impl Token {
    pub fn new(id: usize) -> Self {
        CREATED[id].fetch_add(1, Ordering::SeqCst);
        Token { id }
    }
}
impl Clone for Token {
    fn clone(&self) -> Self {
        Token::new(self.id)
    }
}
impl Drop for Token {
    fn drop(&mut self) {
        DROPPED[self.id].fetch_add(1, Ordering::SeqCst);
    }
}
impl std::fmt::Display for Token {
    fn fmt(&self, f: &mut std::fmt::Formatter) -> std::fmt::Result {
        write!(f, "t{}", self.id)
    }
}

pub fn reset_tokens() {
    for i in 0..MAXTOK {
        CREATED[i].store(0, Ordering::SeqCst);
        DROPPED[i].store(0, Ordering::SeqCst);
    }
}
/// objects all of whose payload instances are gone
pub fn released(n: usize) -> Vec<usize> {
    (1..=n).filter(|&o| CREATED[o].load(Ordering::SeqCst) > 0 && DROPPED[o].load(Ordering::SeqCst) == CREATED[o].load(Ordering::SeqCst)).collect()
}
pub fn over_released(n: usize) -> Vec<usize> {
    (1..=n).filter(|&o| DROPPED[o].load(Ordering::SeqCst) > CREATED[o].load(Ordering::SeqCst)).collect()
}

fn lists(v: &Value) -> Lists {
    serde_json::from_value(v.clone()).expect("lists")
}
fn set_of(v: &Value) -> HashSet<usize> {
    v.as_array().map(|a| a.iter().map(|x| x.as_u64().unwrap() as usize).collect()).unwrap_or_default()
}

type UseFn = Box<dyn Fn() -> Vec<(u32, usize)>>;

macro_rules! own_impl {
    ($fname:ident, $path:path, $directed:tt) => {
        pub mod $fname {
            use super::*;
            use $path as g;
            type N = g::Node<u32, Token, i64>;
            pub struct W {
                n: usize,
                handles: Vec<Vec<N>>,
                cont: Option<g::Graph<u32, Token, i64>>,
                results: Vec<UseFn>,
            }
            pub fn take_result(w: &W, r: &Value) -> Result<UseFn, String> {
                let root = r["root"].as_u64().unwrap() as usize;
                let h = w.handles[root - 1].first().ok_or("no handle on root")?.clone();
                let kind = r["kind"].as_str().unwrap();
                let f: UseFn = match kind {
                    "edges" => {
                        #[allow(unused_mut)]
                        let mut es = vec![];
                        if $directed {
                            for e in &h { es.push(e); }
                        } else {
                            for e in &h { es.push(e); }
                        }
                        Box::new(move || es.iter().flat_map(|e| vec![(*e.0.key(), e.0.value().id), (*e.1.key(), e.1.value().id)]).collect())
                    }
                    "order" => {
                        let ns = own_order!($directed, h);
                        Box::new(move || ns.iter().map(|n| (*n.key(), n.value().id)).collect())
                    }
                    _ => {
                        let t = r["t"].as_u64().unwrap() as u32;
                        let p = h.bfs().target(&t).search_path().ok_or("path result: target not found")?;
                        Box::new(move || p.iter_nodes().map(|n| (*n.key(), n.value().id)).chain(p.iter_edges().map(|e| (*e.1.key(), e.1.value().id))).collect())
                    }
                };
                drop(h);
                Ok(f)
            }
            pub fn build(case: &Value) -> Result<W, String> {
                let st = AState { out: lists(&case["out"]), inn: lists(&case["inn"]) };
                let n = st.n();
                reset_tokens();
                let mut w = W { n, handles: (1..=n).map(|o| vec![g::Node::new(o as u32, Token::new(o))]).collect(), cont: None, results: vec![] };
                for (u, v, e) in st.linearise().ok_or("not linearisable")? {
                    w.handles[(u - 1) as usize][0].connect(&w.handles[(v - 1) as usize][0], e);
                }
                let inc = set_of(&case["inC"]);
                if !inc.is_empty() {
                    let mut c = g::Graph::new();
                    for &o in &inc { c.insert(w.handles[o - 1][0].clone()); }
                    w.cont = Some(c);
                }
                for r in case["res"].as_array().unwrap() {
                    let f = take_result(&w, r)?;
                    w.results.push(f);
                }
                let hs: Vec<usize> = case["h"].as_array().unwrap().iter().map(|x| x.as_u64().unwrap() as usize).collect();
                for o in 1..=n {
                    while w.handles[o - 1].len() < hs[o - 1] { let c = w.handles[o - 1][0].clone(); w.handles[o - 1].push(c); }
                    while w.handles[o - 1].len() > hs[o - 1] { w.handles[o - 1].pop(); }
                }
                Ok(w)
            }
            pub fn apply(w: &mut W, a: &Value) -> Result<(), String> {
                let name = a[0].as_str().unwrap();
                let arg = |i: usize| a[i].as_u64().unwrap() as usize;
                match name {
                    "connect" => { let (u, v) = (arg(1), arg(2)); let hu = w.handles[u - 1][0].clone(); let hv = w.handles[v - 1][0].clone(); hu.connect(&hv, 1); }
                    "clone" => { let c = w.handles[arg(1) - 1][0].clone(); w.handles[arg(1) - 1].push(c); }
                    "drop" => { w.handles[arg(1) - 1].pop(); }
                    "insert" => { let h = w.handles[arg(1) - 1][0].clone(); if w.cont.is_none() { w.cont = Some(g::Graph::new()); } w.cont.as_mut().unwrap().insert(h); }
                    "dropc" => { w.cont = None; }
                    "edges" | "order" => { let f = take_result(w, &json!({"kind": name, "root": arg(1), "t": 0}))?; w.results.push(f); }
                    "path" => { let f = take_result(w, &json!({"kind": "path", "root": arg(1), "t": arg(2)}))?; w.results.push(f); }
                    "dropres" => { w.results.remove(arg(1) - 1); }
                    "lookup" => {
                        // every key look-up the node offers, results dropped at once
                        let (u, v) = (arg(1), arg(2) as u32);
                        let hu = w.handles[u - 1][0].clone();
                        let connected = hu.is_connected(&v);
                        own_lookup!($directed, hu, v);
                        if connected {
                            if let Some(hv) = w.handles[(v - 1) as usize].first().cloned() {
                                if hu.try_connect(&hv, 1).is_ok() { return Err("try_connect succeeded although is_connected".into()); }
                            }
                        }
                    }
                    _ => return Err(format!("unknown action {}", name)),
                }
                Ok(())
            }
            /// live results must be usable: every node they mention can be dereferenced
            pub fn use_results(w: &W) -> Result<usize, String> {
                let mut k = 0;
                for f in &w.results {
                    for (key, id) in f() {
                        if key as usize != id { return Err(format!("result mentions key {} with payload {}", key, id)); }
                        k += 1;
                    }
                }
                Ok(k)
            }
            pub fn replay(cases: &str, max_viol: usize) -> Value {
            fn within(obs: &[usize], case: &Value) -> bool {
                let mn = set_of(&case["released_min"]);
                let mx = set_of(&case["released_max"]);
                let o: HashSet<usize> = obs.iter().cloned().collect();
                mn.is_subset(&o) && o.is_subset(&mx)
            }
            let (mut n_states, mut n_acts, mut agree, mut n_mismatch) = (0usize, 0usize, 0usize, 0usize);
            let mut mismatches: Vec<Value> = vec![];
            let mut samples: Vec<Value> = vec![];
            let mut nontrivial = 0usize;
            let mut derefs = 0usize;
            let mut push = |m: Value, mism: &mut Vec<Value>| { if mism.len() < max_viol { mism.push(m); } };
            tlcio::for_each_case(cases, |case| {
                n_states += 1;
                let n = case["out"].as_array().unwrap().len();
                // the state itself
                let r = guarded(|| build(&case).and_then(|w| { let u = use_results(&w)?; Ok((released(w.n), over_released(w.n), u, w)) }));
                match r {
                    Guarded::Ok(Ok((rel, over, u, w))) => {
                        derefs += u;
                        if !within(&rel, &case) || !over.is_empty() {
                            n_mismatch += 1;
                            push(json!({"kind": "state", "state": case_state(&case), "observed_released": rel, "double_release": over,
                                        "released_min": case["released_min"], "released_max": case["released_max"]}), &mut mismatches);
                        }
                        drop(w);
                        let all = released(n);
                        if all.len() != n {
                            n_mismatch += 1;
                            push(json!({"kind": "leak-after-all-dropped", "state": case_state(&case), "observed_released": all}), &mut mismatches);
                        }
                    }
                    o => {
                        n_mismatch += 1;
                        push(json!({"kind": "build-failed", "state": case_state(&case), "error": format!("{:?}", o.failure().or_else(|| match o { Guarded::Ok(Err(e)) => Some(e), _ => None }))}), &mut mismatches);
                        return;
                    }
                }
                for ac in case["acts"].as_array().unwrap() {
                    n_acts += 1;
                    let r = guarded(|| build(&case).and_then(|mut w| { apply(&mut w, &ac["a"])?; let u = use_results(&w)?; Ok((released(w.n), over_released(w.n), u, w)) }));
                    match r {
                        Guarded::Ok(Ok((rel, over, u, w))) => {
                            derefs += u;
                            if ac["a"][0] != json!("clone") { nontrivial += 1; }
                            if within(&rel, ac) && over.is_empty() {
                                agree += 1;
                                if samples.len() < 6 && !rel.is_empty() && n_acts % 3001 == 0 {
                                    samples.push(json!({"state": case_state(&case), "action": ac["a"], "released_after": rel}));
                                }
                            } else {
                                n_mismatch += 1;
                                push(json!({"kind": "action", "state": case_state(&case), "action": ac["a"], "observed_released": rel, "double_release": over,
                                            "released_min": ac["released_min"], "released_max": ac["released_max"]}), &mut mismatches);
                            }
                            drop(w);
                            if released(n).len() != n {
                                n_mismatch += 1;
                                push(json!({"kind": "leak-after-all-dropped", "state": case_state(&case), "action": ac["a"], "observed_released": released(n)}), &mut mismatches);
                            }
                        }
                        o => {
                            n_mismatch += 1;
                            push(json!({"kind": "action-failed", "state": case_state(&case), "action": ac["a"],
                                        "error": format!("{:?}", o.failure().or_else(|| match o { Guarded::Ok(Err(e)) => Some(e), _ => None }))}), &mut mismatches);
                        }
                    }
                }
            })
            .expect("read cases");
            json!({"states": n_states, "actions": n_acts, "agree": agree, "n_mismatch": n_mismatch, "mismatches": mismatches, "samples": samples,
                   "distinct_nontrivial": nontrivial, "result_node_dereferences": derefs,
                   "lock_points_seen": LOCK_POINTS.load(std::sync::atomic::Ordering::Relaxed)})
            }

            /// seeded random histories over `n` objects; one event per action with the released set observed
            pub fn record(n: usize, histories: usize, steps: usize, seed: u64, path: &str) -> Value {
                use rand::rngs::StdRng;
                use rand::{Rng, SeedableRng};
                use std::io::Write;
                let mut f = std::io::BufWriter::new(std::fs::File::create(path).expect("create trace"));
                let mut rng = StdRng::seed_from_u64(seed ^ 0xc19);
                let mut events = 0usize;
                let mut by: std::collections::HashMap<String, usize> = Default::default();
                for _ in 0..histories {
                    let empty = json!({"out": vec![Vec::<i64>::new(); n], "inn": vec![Vec::<i64>::new(); n], "h": vec![1; n], "inC": [], "res": []});
                    let mut w = build(&empty).expect("build");
                    writeln!(f, "{}", json!({"ev": "reset"})).unwrap();
                    events += 1;
                    let mut edges: Vec<(usize, usize)> = vec![];
                    let mut inc: HashSet<usize> = HashSet::new();
                    for _ in 0..steps {
                        let rel: HashSet<usize> = released(n).into_iter().collect();
                        let alive = |o: usize| !rel.contains(&o);
                        let clean = edges.iter().all(|&(u, v)| !(alive(u) ^ alive(v)) || (!alive(u) && !alive(v)) || (alive(u) && alive(v)));
                        let clean = clean && edges.iter().all(|&(u, v)| (!alive(u) || alive(v)) && (!alive(v) || alive(u)));
                        let hcount = |w: &W, o: usize| w.handles[o - 1].len();
                        let u = rng.gen_range(1..=n);
                        let v = rng.gen_range(1..=n);
                        let a = match rng.gen_range(0..14) {
                            0..=2 if clean && w.results.is_empty() && hcount(&w, u) > 0 && hcount(&w, v) > 0 => json!(["connect", u, v]),
                            3 if hcount(&w, u) > 0 && hcount(&w, u) < 3 => json!(["clone", u]),
                            4..=6 if hcount(&w, u) > 0 => json!(["drop", u]),
                            7 if hcount(&w, u) > 0 && !inc.contains(&u) => json!(["insert", u]),
                            8 if !inc.is_empty() && rng.gen_bool(0.3) => json!(["dropc"]),
                            9 if clean && hcount(&w, u) > 0 && w.results.len() < 2 => json!(["edges", u]),
                            10 if clean && hcount(&w, u) > 0 && w.results.len() < 2 => json!(["order", u]),
                            11 if clean && hcount(&w, u) > 0 && w.results.len() < 2 && u != v => json!(["path", u, v]),
                            12 if !w.results.is_empty() => json!(["dropres", rng.gen_range(1..=w.results.len())]),
                            13 if clean && hcount(&w, u) > 0 => json!(["lookup", u, v]),
                            _ => continue,
                        };
                        let r = guarded(|| apply(&mut w, &a).and_then(|_| use_results(&w)));
                        match r {
                            Guarded::Ok(Ok(_)) => {}
                            Guarded::Ok(Err(e)) if a[0] == json!("path") && e.contains("target not found") => continue, // unreachable target: not an action of the model
                            other => {
                                writeln!(f, "{}", json!({"ev": "own", "a": a, "rt": "fail", "released": [], "detail": format!("{:?}", other.failure())})).unwrap();
                                events += 1;
                                break;
                            }
                        }
                        match a[0].as_str().unwrap() {
                            "connect" => edges.push((u, v)),
                            "insert" => { inc.insert(u); }
                            "dropc" => inc.clear(),
                            _ => {}
                        }
                        *by.entry(a[0].as_str().unwrap().to_string()).or_insert(0) += 1;
                        writeln!(f, "{}", json!({"ev": "own", "a": a, "rt": "ok", "released": released(n), "double": over_released(n)})).unwrap();
                        events += 1;
                    }
                    drop(w);
                    writeln!(f, "{}", json!({"ev": "dropall", "released": released(n), "double": over_released(n)})).unwrap();
                    events += 1;
                }
                f.flush().unwrap();
                json!({"events": events, "histories": histories, "by_action": by})
            }
        }
    };
}

macro_rules! own_lookup {
    (true, $h:ident, $v:ident) => { let _ = $h.find_outbound(&$v); let _ = $h.find_inbound(&$v); };
    (false, $h:ident, $v:ident) => { let _ = $h.find_adjacent(&$v); };
}

macro_rules! own_order {
    (true, $h:ident) => { $h.preorder().search_nodes() };
    (false, $h:ident) => { $h.order().pre().search_nodes() };
}

fn case_state(case: &Value) -> Value {
    json!({"out": case["out"], "inn": case["inn"], "h": case["h"], "inC": case["inC"], "res": case["res"]})
}

own_impl!(replay_digraph, gdsl::digraph, true);
own_impl!(replay_sync_digraph, gdsl::sync_digraph, true);
own_impl!(replay_ungraph, gdsl::ungraph, false);
own_impl!(replay_sync_ungraph, gdsl::sync_ungraph, false);

pub fn replay(flavour: &str, cases: &str, max_viol: usize) -> Value {
    let mut v = match flavour {
        "digraph" => replay_digraph::replay(cases, max_viol),
        "sync_digraph" => replay_sync_digraph::replay(cases, max_viol),
        "ungraph" => replay_ungraph::replay(cases, max_viol),
        "sync_ungraph" => replay_sync_ungraph::replay(cases, max_viol),
        o => panic!("unknown flavour {}", o),
    };
    v["flavour"] = json!(flavour);
    v
}

pub fn record(flavour: &str, n: usize, histories: usize, steps: usize, seed: u64, path: &str) -> Value {
    let mut v = match flavour {
        "digraph" => replay_digraph::record(n, histories, steps, seed, path),
        "sync_digraph" => replay_sync_digraph::record(n, histories, steps, seed, path),
        "ungraph" => replay_ungraph::record(n, histories, steps, seed, path),
        "sync_ungraph" => replay_sync_ungraph::record(n, histories, steps, seed, path),
        o => panic!("unknown flavour {}", o),
    };
    v["flavour"] = json!(flavour);
    v
}
