//! C18: the Graph containers as key -> node maps with views and DOT export.

use gdslh::*;
use rand::rngs::StdRng;
use rand::{Rng, SeedableRng};
use serde_json::{json, Value};
use std::collections::{HashMap, HashSet};
use std::io::Write;

fn lists(v: &Value) -> Lists {
    serde_json::from_value(v.clone()).expect("lists")
}

/// objects 1..nk+nd: object o has key (o <= nk ? o : o - nk) and value 10 * o
pub struct CWorld<F: Fl> {
    pub nk: usize,
    pub objs: Vec<F::Node>,
    pub g: F::Graph,
}

fn key_of(o: usize, nk: usize) -> K {
    (if o <= nk { o } else { o - nk }) as K
}
fn obj_id<F: Fl>(n: &F::Node) -> i64 {
    F::val(n) / 10
}

impl<F: Fl> CWorld<F> {
    pub fn build(nk: usize, nd: usize, mem: &[i64], st: &AState) -> Result<Self, String> {
        let objs: Vec<F::Node> = (1..=nk + nd).map(|o| F::node(key_of(o, nk), 10 * o as i64)).collect();
        for (u, v, e) in st.linearise().ok_or("not linearisable")? {
            F::connect(&objs[(u - 1) as usize], &objs[(v - 1) as usize], e);
        }
        let mut g = F::g_new();
        for &m in mem {
            if m != 0 && !F::g_insert(&mut g, objs[(m - 1) as usize].clone()) {
                return Err(format!("could not insert object {}", m));
            }
        }
        Ok(CWorld { nk, objs, g })
    }
    pub fn state(&self) -> AState {
        AState {
            out: self.objs[..self.nk].iter().map(|n| F::out_list(n)).collect(),
            inn: self.objs[..self.nk].iter().map(|n| F::in_list(n)).collect(),
        }
    }
    pub fn mem(&self) -> Vec<i64> {
        (1..=self.nk as K).map(|k| F::g_get(&self.g, k).map(|n| obj_id::<F>(&n)).unwrap_or(0)).collect()
    }
    pub fn views(&self) -> Value {
        let ids = |v: Vec<F::Node>| {
            let mut x: Vec<i64> = v.iter().map(|n| obj_id::<F>(n)).collect();
            x.sort();
            x
        };
        let get: Vec<i64> = (1..=self.nk as K)
            .map(|k| {
                let a = F::g_get(&self.g, k).map(|n| obj_id::<F>(&n)).unwrap_or(0);
                if a != 0 {
                    // indexing must hand out the same node
                    let b = obj_id::<F>(&F::g_index(&self.g, k));
                    assert!(a == b, "VERIF-ACCESSOR: get and index disagree");
                }
                a
            })
            .collect();
        let contains: Vec<bool> = (1..=self.nk as K).map(|k| F::g_contains(&self.g, k)).collect();
        let mut iter: Vec<(K, i64)> = F::g_iter(&self.g).iter().map(|(k, n)| (*k, obj_id::<F>(n))).collect();
        iter.sort();
        let mut v = json!({"get": get, "contains": contains, "len": F::g_len(&self.g), "is_empty": F::g_is_empty(&self.g),
            "to_vec": ids(F::g_to_vec(&self.g)), "iter": iter, "orphans": ids(F::g_orphans(&self.g))});
        if let Some(r) = F::g_roots(&self.g) {
            v["roots"] = json!(ids(r));
        }
        if let Some(l) = F::g_leaves(&self.g) {
            v["leaves"] = json!(ids(l));
        }
        v
    }
    /// a handle to primary object o, through the container when it is a member
    fn handle(&self, o: usize, variant: usize) -> F::Node {
        let k = key_of(o, self.nk);
        let is_member = F::g_get(&self.g, k).map(|n| obj_id::<F>(&n) == o as i64).unwrap_or(false);
        if !is_member {
            return self.objs[o - 1].clone();
        }
        match variant % 4 {
            0 => F::g_get(&self.g, k).unwrap(),
            1 => F::g_index(&self.g, k),
            2 => F::g_to_vec(&self.g).into_iter().find(|n| F::key(n) == k).unwrap(),
            _ => F::g_iter(&self.g).into_iter().find(|(kk, _)| *kk == k).unwrap().1,
        }
    }
    pub fn apply(&mut self, op: &Value, variant: usize) -> Value {
        let a = op.as_array().unwrap();
        let name = a[0].as_str().unwrap();
        let n = |i: usize| a[i].as_i64().unwrap();
        match name {
            "insert" => {
                let node = self.objs[(n(1) - 1) as usize].clone();
                match guarded(|| F::g_insert(&mut self.g, node)) {
                    Guarded::Ok(b) => json!(b),
                    o => json!(o.failure()),
                }
            }
            "remove" => match guarded(|| F::g_remove(&mut self.g, n(1) as K)) {
                Guarded::Ok(r) => json!(r.map(|x| obj_id::<F>(&x)).unwrap_or(0)),
                o => json!(o.failure()),
            },
            _ => {
                let op = Op::from_json(op);
                let h = self.handle(op.subject() as usize, variant);
                let r = match &op {
                    Op::Connect(_, v, e) => {
                        let hv = self.handle(*v as usize, variant + 1);
                        guarded(|| { F::connect(&h, &hv, *e); json!("ok") })
                    }
                    Op::TryConnect(_, v, e) => {
                        let hv = self.handle(*v as usize, variant + 1);
                        guarded(|| match F::try_connect(&h, &hv, *e) { Ok(()) => json!("ok"), Err(s) => json!(s) })
                    }
                    Op::Disconnect(_, k) => guarded(|| match F::disconnect(&h, *k) { Ok(e) => json!(e), Err(s) => json!(s) }),
                    Op::Isolate(_) => guarded(|| { F::isolate(&h); json!("ok") }),
                };
                match r {
                    Guarded::Ok(v) => v,
                    o => json!(o.failure()),
                }
            }
        }
    }
}

fn is_fail(v: &Value) -> bool {
    v.as_str().map(|s| s.starts_with("panic:") || s.starts_with("deadlock:")).unwrap_or(false)
}

fn sorted(v: &Value) -> Value {
    let mut a: Vec<Value> = v.as_array().cloned().unwrap_or_default();
    a.sort_by_key(|x| x.to_string());
    json!(a)
}

fn views_equal(obs: &Value, exp: &Value) -> bool {
    for f in ["get", "contains", "len", "is_empty"] {
        if obs[f] != exp[f] {
            return false;
        }
    }
    for f in ["to_vec", "iter", "orphans"] {
        if sorted(&obs[f]) != sorted(&exp[f]) {
            return false;
        }
    }
    for f in ["roots", "leaves"] {
        if obs.get(f).is_some() && sorted(&obs[f]) != sorted(&exp[f]) {
            return false;
        }
    }
    true
}

pub fn replay(opts: &HashMap<String, String>) -> Value {
    let fl = opts.get("flavour").expect("--flavour").clone();
    with_flavour!(fl.as_str(), replay_fl(opts))
}

fn replay_fl<F: Fl>(opts: &HashMap<String, String>) -> Value {
    let cases = opts.get("cases").expect("--cases");
    let nk: usize = opts.get("nk").map(|s| s.parse().unwrap()).unwrap_or(3);
    let nd: usize = opts.get("nd").map(|s| s.parse().unwrap()).unwrap_or(1);
    let max_viol: usize = opts.get("max-violations").map(|s| s.parse().unwrap()).unwrap_or(300);
    let (mut n_states, mut n_ops, mut agree, mut n_mismatch) = (0usize, 0usize, 0usize, 0usize);
    let mut mismatches = vec![];
    let mut samples = vec![];
    let mut nontrivial: HashSet<String> = HashSet::new();
    let mut variant = 0usize;
    tlcio::for_each_case(cases, |case| {
        n_states += 1;
        let mem: Vec<i64> = serde_json::from_value(case["mem"].clone()).unwrap();
        let st = AState { out: lists(&case["out"]), inn: lists(&case["inn"]) };
        // the state itself
        match guarded(|| CWorld::<F>::build(nk, nd, &mem, &st).map(|w| (w.mem(), w.state(), w.views()))) {
            Guarded::Ok(Ok((m, s, v))) => {
                if m != mem || s != st || !views_equal(&v, &case["views"]) {
                    n_mismatch += 1;
                    if mismatches.len() < max_viol {
                        mismatches.push(json!({"kind": "state", "flavour": F::NAME, "pre": {"mem": mem, "out": st.out, "inn": st.inn},
                            "observed": {"mem": m, "out": s.out, "inn": s.inn, "views": v}, "expected_views": case["views"]}));
                    }
                }
            }
            o => {
                n_mismatch += 1;
                if mismatches.len() < max_viol {
                    mismatches.push(json!({"kind": "build", "flavour": F::NAME, "pre": {"mem": mem, "out": st.out, "inn": st.inn}, "error": format!("{:?}", o)}));
                }
                return;
            }
        }
        for oc in case["ops"].as_array().unwrap() {
            n_ops += 1;
            variant += 1;
            let mut w = match guarded(|| CWorld::<F>::build(nk, nd, &mem, &st)) {
                Guarded::Ok(Ok(w)) => w,
                _ => continue,
            };
            let res = w.apply(&oc["op"], variant);
            let post = guarded(|| (w.mem(), w.state(), w.views()));
            nontrivial.insert(format!("{:?}{:?}{}", mem, st, oc["op"]));
            let ok = match &post {
                Guarded::Ok((m, s, v)) => {
                    res == oc["res"] && json!(m) == oc["mem"] && json!(s.out) == oc["out"] && json!(s.inn) == oc["inn"] && views_equal(v, &oc["views"])
                }
                _ => false,
            };
            if ok {
                agree += 1;
                if samples.len() < 5 && n_ops % 1777 == 0 {
                    samples.push(json!({"flavour": F::NAME, "pre": {"mem": mem, "out": st.out}, "op": oc["op"], "res": res}));
                }
            } else {
                n_mismatch += 1;
                if mismatches.len() < max_viol {
                    let (m, s, v) = match post {
                        Guarded::Ok(x) => (json!(x.0), json!({"out": x.1.out, "inn": x.1.inn}), x.2),
                        o => (json!(null), json!(null), json!(o.failure())),
                    };
                    mismatches.push(json!({"kind": "op", "flavour": F::NAME, "pre": {"mem": mem, "out": st.out, "inn": st.inn}, "op": oc["op"],
                        "res": res, "rt": if is_fail(&res) || m.is_null() { "fail" } else { "ok" }, "mem": m, "state": s, "views": v,
                        "expected": {"res": oc["res"], "mem": oc["mem"], "out": oc["out"], "inn": oc["inn"], "views": oc["views"]}}));
                }
            }
        }
    })
    .expect("read cases");
    json!({"flavour": F::NAME, "states": n_states, "ops": n_ops, "agree": agree, "n_mismatch": n_mismatch, "mismatches": mismatches,
           "samples": samples, "distinct_nontrivial": nontrivial.len()})
}

// ---- DOT: lexing only ----
fn parse_attrs(s: &str) -> Vec<Value> {
    // [k="v"][k2="v2"]
    let mut out = vec![];
    let mut rest = s.trim();
    while let Some(st) = rest.find('[') {
        let en = match rest[st..].find(']') { Some(e) => st + e, None => break };
        let body = &rest[st + 1..en];
        if let Some(eq) = body.find('=') {
            let k = body[..eq].to_string();
            let v = body[eq + 1..].trim_matches('"');
            out.push(json!([k, v.parse::<i64>().map(|x| json!(x)).unwrap_or(json!(v))]));
        }
        rest = &rest[en + 1..];
    }
    out
}

pub fn parse_dot(text: &str) -> Value {
    let lines: Vec<&str> = text.split('\n').collect();
    let header = lines.first().map(|s| s.trim()).unwrap_or("").to_string();
    let footer = lines.last().map(|s| s.trim()).unwrap_or("").to_string();
    let mut nodes = vec![];
    let mut edges = vec![];
    let mut gattrs = vec![];
    for l in &lines[1..lines.len().saturating_sub(1)] {
        let t = l.trim();
        if t.is_empty() {
            continue;
        }
        let (stmt, attrs) = match t.find(" [") { Some(i) => (&t[..i], parse_attrs(&t[i..])), None => (t, vec![]) };
        if let Some(i) = stmt.find(" -> ") {
            let u = stmt[..i].trim().parse::<i64>().map(|x| json!(x)).unwrap_or(json!(stmt[..i].trim()));
            let v = stmt[i + 4..].trim().parse::<i64>().map(|x| json!(x)).unwrap_or(json!(stmt[i + 4..].trim()));
            edges.push(json!([u, v, attrs]));
        } else if let Some(i) = stmt.find('=') {
            let v = stmt[i + 1..].trim_matches('"');
            gattrs.push(json!([stmt[..i].to_string(), v.parse::<i64>().map(|x| json!(x)).unwrap_or(json!(v))]));
        } else {
            nodes.push(json!([stmt.parse::<i64>().map(|x| json!(x)).unwrap_or(json!(stmt)), attrs]));
        }
    }
    json!({"header": header, "footer": footer, "nodes": nodes, "edges": edges, "gattrs": gattrs})
}

fn dot_events<F: Fl>(w: &CWorld<F>, f: &mut impl Write, sels: &[(u8, u8, u8)]) -> usize {
    let mut n = 0;
    let plain = guarded(|| F::g_to_dot(&w.g));
    let ev = match plain {
        Guarded::Ok(t) => json!({"ev": "dot", "rt": "ok", "ga": 0, "na": 0, "ea": 0, "method": "to_dot", "dot": parse_dot(&t), "text": t}),
        o => json!({"ev": "dot", "rt": "fail", "ga": 0, "na": 0, "ea": 0, "method": "to_dot", "error": o.failure(),
                    "dot": {"header": "", "footer": "", "nodes": [], "edges": [], "gattrs": []}}),
    };
    writeln!(f, "{}", ev).unwrap();
    n += 1;
    for &(ga, na, ea) in sels {
        let r = guarded(|| F::g_to_dot_attr(&w.g, ga, na, ea));
        let ev = match r {
            Guarded::Ok(Some(t)) => json!({"ev": "dot", "rt": "ok", "ga": ga, "na": na, "ea": ea, "method": "to_dot_with_attr", "dot": parse_dot(&t), "text": t}),
            Guarded::Ok(None) => continue,
            o => json!({"ev": "dot", "rt": "fail", "ga": ga, "na": na, "ea": ea, "method": "to_dot_with_attr", "error": o.failure(),
                        "dot": {"header": "", "footer": "", "nodes": [], "edges": [], "gattrs": []}}),
        };
        writeln!(f, "{}", ev).unwrap();
        n += 1;
    }
    n
}

pub fn record(opts: &HashMap<String, String>) -> Value {
    let fl = opts.get("flavour").expect("--flavour").clone();
    with_flavour!(fl.as_str(), record_fl(opts))
}

/// (a) DOT exports of every emitted container state, (b) random long histories
fn record_fl<F: Fl>(opts: &HashMap<String, String>) -> Value {
    let nk: usize = opts.get("nk").map(|s| s.parse().unwrap()).unwrap_or(3);
    let nd: usize = opts.get("nd").map(|s| s.parse().unwrap()).unwrap_or(1);
    let seed: u64 = opts.get("seed").map(|s| s.parse().unwrap()).unwrap_or(1);
    let histories: usize = opts.get("histories").map(|s| s.parse().unwrap()).unwrap_or(0);
    let calls: usize = opts.get("calls").map(|s| s.parse().unwrap()).unwrap_or(200);
    let all_attr: bool = opts.get("all-attr").map(|s| s == "true").unwrap_or(false);
    let path = opts.get("trace").expect("--trace");
    let mut f = std::io::BufWriter::new(std::fs::File::create(path).expect("create trace"));
    let mut rng = StdRng::seed_from_u64(seed ^ 0xc18);
    let mut events = 0usize;
    let mut dots = 0usize;
    let mut sels_all = vec![];
    for ga in 0..3u8 { for na in 0..3u8 { for ea in 0..3u8 { sels_all.push((ga, na, ea)); } } }
    if let Some(cases) = opts.get("cases") {
        let mut i = 0usize;
        tlcio::for_each_case(cases, |case| {
            let mem: Vec<i64> = serde_json::from_value(case["mem"].clone()).unwrap();
            let st = AState { out: lists(&case["out"]), inn: lists(&case["inn"]) };
            if let Ok(w) = CWorld::<F>::build(nk, nd, &mem, &st) {
                writeln!(f, "{}", json!({"ev": "cstate", "mem": mem, "out": st.out, "inn": st.inn})).unwrap();
                events += 1;
                i += 1;
                let sels: Vec<(u8, u8, u8)> = if all_attr { sels_all.clone() } else { vec![sels_all[i % 27], sels_all[(i * 7 + 13) % 27]] };
                let k = dot_events(&w, &mut f, &sels);
                events += k;
                dots += k;
            }
        })
        .expect("read cases");
    }
    let mut by_op: HashMap<String, usize> = HashMap::new();
    for _ in 0..histories {
        let st0 = AState::empty(nk);
        let mem0 = vec![0i64; nk];
        let mut w = CWorld::<F>::build(nk, nd, &mem0, &st0).unwrap();
        writeln!(f, "{}", json!({"ev": "cstate", "mem": mem0, "out": st0.out, "inn": st0.inn})).unwrap();
        events += 1;
        for c in 0..calls {
            let r = rng.gen_range(0..100);
            let op = if r < 25 {
                json!(["insert", rng.gen_range(1..=nk + nd)])
            } else if r < 40 {
                json!(["remove", rng.gen_range(1..=nk)])
            } else if r < 65 {
                json!(["connect", rng.gen_range(1..=nk), rng.gen_range(1..=nk), rng.gen_range(1..=3)])
            } else if r < 72 {
                json!(["try_connect", rng.gen_range(1..=nk), rng.gen_range(1..=nk), rng.gen_range(1..=3)])
            } else if r < 92 {
                json!(["disconnect", rng.gen_range(1..=nk), rng.gen_range(1..=nk)])
            } else {
                json!(["isolate", rng.gen_range(1..=nk)])
            };
            *by_op.entry(op[0].as_str().unwrap().to_string()).or_insert(0) += 1;
            let res = w.apply(&op, c);
            let post = guarded(|| (w.mem(), w.state(), w.views()));
            match post {
                Guarded::Ok((m, s, v)) if !is_fail(&res) => {
                    writeln!(f, "{}", json!({"ev": "cop", "rt": "ok", "op": op, "res": res, "mem": m, "out": s.out, "inn": s.inn, "views": v})).unwrap();
                    events += 1;
                }
                _ => {
                    writeln!(f, "{}", json!({"ev": "cop", "rt": "fail", "op": op, "res": res.to_string()})).unwrap();
                    events += 1;
                    break;
                }
            }
            if c % 25 == 24 {
                let k = dot_events(&w, &mut f, &[sels_all[rng.gen_range(0..27)]]);
                events += k;
                dots += k;
            }
        }
    }
    f.flush().unwrap();
    json!({"flavour": F::NAME, "events": events, "dot_exports": dots, "histories": histories, "by_op": by_op})
}
