//! C12 / C13: real serde_json / serde_cbor round trips and untrusted documents.

use gdslh::*;
use rand::rngs::StdRng;
use rand::{Rng, SeedableRng};
use serde_json::{json, Value};
use std::collections::{HashMap, HashSet};
use std::io::Write;
use std::sync::mpsc;
use std::time::Duration;

fn lists(v: &Value) -> Lists {
    serde_json::from_value(v.clone()).expect("lists")
}

/// keys / values / lists of a container, padded to `pad` node ids
fn project_graph<F: Fl>(g: &F::Graph, pad: usize) -> Value {
    let mut keys: Vec<K> = F::g_iter(g).iter().map(|(k, _)| *k).collect();
    keys.sort();
    let mut vals = vec![0i64; pad];
    let mut out: Lists = vec![vec![]; pad];
    let mut inn: Lists = vec![vec![]; pad];
    let mut beyond = vec![];
    for &k in &keys {
        let n = F::g_get(g, k).expect("iterated key must be gettable");
        assert!(F::key(&n) == k, "VERIF-ACCESSOR: container key != node key");
        if (k as usize) >= 1 && (k as usize) <= pad {
            vals[(k - 1) as usize] = F::val(&n);
            out[(k - 1) as usize] = F::out_list(&n);
            inn[(k - 1) as usize] = F::in_list(&n);
        } else {
            beyond.push(k);
        }
    }
    json!({"keys": keys, "vals": vals, "out": out, "inn": inn, "beyond": beyond, "len": F::g_len(g)})
}

/// the abstract form [nodes, edges] of a generically parsed document, if it has one
fn abstract_doc(v: &Value, pad: usize) -> Option<Value> {
    let a = v.as_array()?;
    if a.len() > 2 {
        return None;
    }
    let empty = vec![];
    let nodes = if !a.is_empty() { a[0].as_array()? } else { &empty };
    let edges = if a.len() > 1 { a[1].as_array()? } else { &empty };
    let key_ok = |x: &Value| x.as_u64().map(|k| k >= 1 && k as usize <= pad).unwrap_or(false);
    for n in nodes {
        let p = n.as_array()?;
        if p.len() != 2 || !key_ok(&p[0]) || !p[1].is_i64() || p[1].as_i64()?.abs() > 1_000_000 {
            return None;
        }
    }
    for e in edges {
        let p = e.as_array()?;
        if p.len() != 3 || !key_ok(&p[0]) || !key_ok(&p[1]) || !p[2].is_i64() {
            return None;
        }
        if p[2].as_i64()? < 1 || p[2].as_i64()? > 3 {
            return None; // outside the edge-value range of the trace spec
        }
    }
    Some(json!([nodes, edges]))
}

fn fresh_graph<F: Fl>(st: &AState, order: &[K]) -> (World<F>, F::Graph) {
    let vals: Vec<NV> = (1..=st.n() as i64).map(|k| 10 * k).collect();
    let w = World::<F>::build(st, Some(&vals)).expect("build");
    let mut g = F::g_new();
    for &k in order {
        F::g_insert(&mut g, w.node(k).clone());
    }
    (w, g)
}

#[derive(Clone, Copy, PartialEq)]
enum Fmt {
    Json,
    Cbor,
}
impl Fmt {
    fn name(self) -> &'static str {
        if self == Fmt::Json { "json" } else { "cbor" }
    }
}

fn ser<F: Fl>(g: &F::Graph, fmt: Fmt) -> Result<Vec<u8>, String> {
    match fmt {
        Fmt::Json => F::g_to_json(g).map(|s| s.into_bytes()),
        Fmt::Cbor => F::g_to_cbor(g),
    }
}
fn de<F: Fl>(b: &[u8], fmt: Fmt) -> Result<F::Graph, String> {
    match fmt {
        Fmt::Json => match std::str::from_utf8(b) {
            Ok(s) => F::g_from_json(s),
            Err(e) => Err(e.to_string()),
        },
        Fmt::Cbor => F::g_from_cbor(b),
    }
}
fn generic(b: &[u8], fmt: Fmt) -> Option<Value> {
    match fmt {
        Fmt::Json => serde_json::from_slice::<Value>(b).ok(),
        Fmt::Cbor => serde_cbor::from_slice::<Value>(b).ok(),
    }
}
fn render(v: &Value, fmt: Fmt) -> Vec<u8> {
    match fmt {
        Fmt::Json => serde_json::to_vec(v).unwrap(),
        Fmt::Cbor => serde_cbor::to_vec(v).unwrap(),
    }
}

/// one round trip: ser + de events
fn roundtrip_events<F: Fl>(st: &AState, order: &[K], fmt: Fmt, pad: usize, f: &mut impl Write) -> usize {
    let r = guarded(|| {
        let (_w, g) = fresh_graph::<F>(st, order);
        ser::<F>(&g, fmt)
    });
    let bytes = match r {
        Guarded::Ok(Ok(b)) => b,
        Guarded::Ok(Err(e)) => {
            writeln!(f, "{}", json!({"ev": "ser", "fmt": fmt.name(), "rt": "fail", "error": e, "doc": [[], []]})).unwrap();
            return 1;
        }
        o => {
            writeln!(f, "{}", json!({"ev": "ser", "fmt": fmt.name(), "rt": "fail", "error": o.failure(), "doc": [[], []]})).unwrap();
            return 1;
        }
    };
    let doc = generic(&bytes, fmt).and_then(|v| {
        // the wire shape must be exactly the 2-tuple (nodes, edges)
        if v.as_array().map(|a| a.len() == 2).unwrap_or(false) { abstract_doc(&v, pad) } else { None }
    });
    match &doc {
        Some(d) => writeln!(f, "{}", json!({"ev": "ser", "fmt": fmt.name(), "rt": "doc", "doc": d, "insertion_order": order})).unwrap(),
        None => writeln!(f, "{}", json!({"ev": "ser", "fmt": fmt.name(), "rt": "fail", "error": "not of the (nodes, edges) wire shape",
                                          "doc": [[], []], "bytes": bytes.len()})).unwrap(),
    }
    let r2 = guarded(|| de::<F>(&bytes, fmt).map(|g| project_graph::<F>(&g, pad)));
    let (rt, res) = match r2 {
        Guarded::Ok(Ok(p)) => ("graph", p),
        Guarded::Ok(Err(e)) => ("err", json!(e)),
        o => ("fail", json!(o.failure())),
    };
    writeln!(f, "{}", json!({"ev": "de", "fmt": fmt.name(), "rt": rt, "res": res, "hasdoc": doc.is_some(),
                             "doc": doc.unwrap_or(json!([[], []]))})).unwrap();
    2
}

pub fn record_serde(opts: &HashMap<String, String>) -> Value {
    let fl = opts.get("flavour").expect("--flavour").clone();
    with_flavour!(fl.as_str(), record_serde_fl(opts))
}

fn graph_event(st: &AState, pad: usize) -> Value {
    let mut o = st.out.clone();
    let mut i = st.inn.clone();
    o.resize(pad, vec![]);
    i.resize(pad, vec![]);
    json!({"ev": "graph", "out": o, "inn": i, "n": st.n()})
}

fn record_serde_fl<F: Fl>(opts: &HashMap<String, String>) -> Value {
    let pad: usize = opts.get("pad").map(|s| s.parse().unwrap()).unwrap_or(3);
    let instances: usize = opts.get("instances").map(|s| s.parse().unwrap()).unwrap_or(2);
    let seed: u64 = opts.get("seed").map(|s| s.parse().unwrap()).unwrap_or(1);
    let path = opts.get("trace").expect("--trace");
    let mut f = std::io::BufWriter::new(std::fs::File::create(path).expect("create trace"));
    let mut rng = StdRng::seed_from_u64(seed ^ 0x5e7de);
    let mut events = 0usize;
    let mut graphs = 0usize;
    let mut nontrivial: HashSet<String> = HashSet::new();
    let mut do_graph = |st: &AState, rng: &mut StdRng, f: &mut std::io::BufWriter<std::fs::File>| {
        graphs += 1;
        writeln!(f, "{}", graph_event(st, pad)).unwrap();
        events += 1;
        let n = st.n();
        for inst in 0..instances {
            let mut order: Vec<K> = (1..=n as K).collect();
            order.rotate_left(inst % n);
            if inst >= 2 {
                for i in (1..order.len()).rev() {
                    order.swap(i, rng.gen_range(0..=i));
                }
            }
            for fmt in [Fmt::Json, Fmt::Cbor] {
                events += roundtrip_events::<F>(st, &order, fmt, pad, f);
                if st.edges() > 0 {
                    nontrivial.insert(format!("{:?}{:?}{}", st, order, fmt.name()));
                }
            }
        }
    };
    if let Some(cases) = opts.get("cases") {
        tlcio::for_each_case(cases, |case| {
            if case["case"] == json!("graph") {
                let st = AState { out: lists(&case["out"]), inn: lists(&case["inn"]) };
                do_graph(&st, &mut rng, &mut f);
            }
        })
        .expect("read cases");
    }
    let random: usize = opts.get("random").map(|s| s.parse().unwrap()).unwrap_or(0);
    for gi in 0..random {
        let n = rng.gen_range(2..=pad);
        let ne = match gi % 3 { 0 => n, 1 => 2 * n, _ => n / 2 };
        let mut st = AState::empty(n);
        for _ in 0..ne {
            let u = rng.gen_range(1..=n as K);
            let v = if rng.gen_bool(0.1) { u } else { rng.gen_range(1..=n as K) };
            let e = rng.gen_range(1..=3);
            st.out[(u - 1) as usize].push((v, e));
            st.inn[(v - 1) as usize].push((u, e));
        }
        do_graph(&st, &mut rng, &mut f);
    }
    f.flush().unwrap();
    json!({"flavour": F::NAME, "events": events, "graphs": graphs, "distinct_nontrivial": nontrivial.len()})
}

/// run `f` on a fresh thread; None when it does not finish within the limit
fn with_watchdog(f: impl FnOnce() -> Value + Send + 'static, ms: u64) -> Option<Value> {
    let (tx, rx) = mpsc::channel();
    std::thread::spawn(move || {
        guard::expect_panics_on_this_thread();
        let _ = tx.send(f());
    });
    rx.recv_timeout(Duration::from_millis(ms)).ok()
}

/// deserialise arbitrary bytes into flavour F: {"rt": graph|err|fail, "res": ..}
fn untrusted_outcome<F: Fl>(bytes: Vec<u8>, fmt: Fmt, pad: usize) -> Value {
    let r = with_watchdog(
        move || {
            let r = guarded(|| de::<F>(&bytes, fmt).map(|g| project_graph::<F>(&g, pad)));
            match r {
                Guarded::Ok(Ok(p)) => json!({"rt": "graph", "res": p}),
                Guarded::Ok(Err(e)) => json!({"rt": "err", "res": e}),
                o => json!({"rt": "fail", "res": o.failure()}),
            }
        },
        30000,
    );
    r.unwrap_or_else(|| json!({"rt": "fail", "res": "VERIF-HANG: deserialisation did not return within 30 s"}))
}

/// the abstract document with every key written as the string `skey(k)`
fn with_string_keys(v: &Value) -> Value {
    let sk = |x: &Value| json!(skey(x.as_u64().unwrap_or(0) as K));
    let nodes: Vec<Value> = v[0].as_array().unwrap().iter().map(|p| json!([sk(&p[0]), p[1]])).collect();
    let edges: Vec<Value> = v[1].as_array().unwrap().iter().map(|p| json!([sk(&p[0]), sk(&p[1]), p[2]])).collect();
    json!([nodes, edges])
}

/// the same for a container keyed by `String`
fn untrusted_outcome_strkeys<F: Fl>(bytes: Vec<u8>, fmt: Fmt, pad: usize) -> Value {
    let r = with_watchdog(
        move || {
            let r = guarded(|| F::g_strkeys_from(&bytes, fmt == Fmt::Json, pad));
            match r {
                Guarded::Ok(Ok(p)) => json!({"rt": "graph", "res": p}),
                Guarded::Ok(Err(e)) => json!({"rt": "err", "res": e}),
                o => json!({"rt": "fail", "res": o.failure()}),
            }
        },
        30000,
    );
    r.unwrap_or_else(|| json!({"rt": "fail", "res": "VERIF-HANG: deserialisation did not return within 30 s"}))
}

pub fn replay_untrusted(opts: &HashMap<String, String>) -> Value {
    let fl = opts.get("flavour").expect("--flavour").clone();
    with_flavour!(fl.as_str(), replay_untrusted_fl(opts))
}

/// every abstract document TLC emitted, rendered as JSON and CBOR; stage 1 = equality with Deser(doc)
fn replay_untrusted_fl<F: Fl>(opts: &HashMap<String, String>) -> Value {
    let cases = opts.get("cases").expect("--cases");
    let pad: usize = opts.get("pad").map(|s| s.parse().unwrap()).unwrap_or(3);
    let max_viol: usize = opts.get("max-violations").map(|s| s.parse().unwrap()).unwrap_or(300);
    let (mut n_docs, mut n_exec, mut agree, mut n_mismatch) = (0usize, 0usize, 0usize, 0usize);
    let mut mismatches = vec![];
    let mut samples = vec![];
    let mut nontrivial = 0usize;
    let mut outcomes: HashMap<&'static str, usize> = HashMap::new();
    tlcio::for_each_case(cases, |case| {
        if case["case"] != json!("doc") {
            return;
        }
        n_docs += 1;
        let d = &case["doc"];
        let v = json!([d["nodes"], d["edges"]]);
        let exp = &case["res"];
        let nonempty = d["nodes"].as_array().map(|a| !a.is_empty()).unwrap_or(false);
        let vs = with_string_keys(&v);
        for (fmt, strkeys) in [(Fmt::Json, false), (Fmt::Cbor, false), (Fmt::Json, true), (Fmt::Cbor, true)] {
            n_exec += 1;
            if nonempty {
                nontrivial += 1;
            }
            let o = if strkeys { untrusted_outcome_strkeys::<F>(render(&vs, fmt), fmt, pad) } else { untrusted_outcome::<F>(render(&v, fmt), fmt, pad) };
            let ok = if exp["ok"] == json!(true) {
                *outcomes.entry("graph").or_insert(0) += 1;
                o["rt"] == json!("graph")
                    && o["res"]["keys"] == exp["keys"]
                    && o["res"]["vals"] == exp["vals"]
                    && o["res"]["out"] == exp["out"]
                    && o["res"]["inn"] == exp["inn"]
                    && o["res"]["beyond"] == json!([])
            } else {
                *outcomes.entry("err").or_insert(0) += 1;
                o["rt"] == json!("err")
            };
            if ok {
                agree += 1;
                if samples.len() < 5 && n_exec % 997 == 0 {
                    samples.push(json!({"flavour": F::NAME, "fmt": fmt.name(), "doc": v, "outcome": o}));
                }
            } else {
                n_mismatch += 1;
                if mismatches.len() < max_viol {
                    mismatches.push(json!({"flavour": F::NAME, "fmt": if strkeys { format!("{}+string-keys", fmt.name()) } else { fmt.name().to_string() },
                        "doc": v, "rt": o["rt"], "res": o["res"], "expected": exp}));
                }
            }
        }
    })
    .expect("read cases");
    json!({"flavour": F::NAME, "docs": n_docs, "executions": n_exec, "agree": agree, "n_mismatch": n_mismatch,
           "mismatches": mismatches, "samples": samples, "distinct_nontrivial": nontrivial, "expected_outcomes": outcomes})
}

fn mutate_value(v: &mut Value, rng: &mut StdRng, pad: usize) -> &'static str {
    // structural mutations of a valid document [nodes, edges]
    let kind = rng.gen_range(0..12);
    let arr = v.as_array_mut().unwrap();
    let pick = |rng: &mut StdRng, a: &Vec<Value>| if a.is_empty() { None } else { Some(rng.gen_range(0..a.len())) };
    match kind {
        0 => {
            // drop a node entry
            let nodes = arr[0].as_array_mut().unwrap();
            if let Some(i) = pick(rng, nodes) { nodes.remove(i); }
            "drop-node"
        }
        1 => {
            let edges = arr[1].as_array_mut().unwrap();
            if let Some(i) = pick(rng, edges) { edges.remove(i); }
            "drop-edge"
        }
        2 => {
            let nodes = arr[0].as_array_mut().unwrap();
            if let Some(i) = pick(rng, nodes) { let x = nodes[i].clone(); nodes.push(x); }
            "duplicate-node"
        }
        3 => {
            let edges = arr[1].as_array_mut().unwrap();
            if let Some(i) = pick(rng, edges) { let x = edges[i].clone(); let j = rng.gen_range(0..=edges.len()); edges.insert(j, x); }
            "duplicate-edge"
        }
        4 => {
            // retarget an edge endpoint (possibly to an undeclared key)
            let edges = arr[1].as_array_mut().unwrap();
            if let Some(i) = pick(rng, edges) { let w = rng.gen_range(0..2); if let Some(x) = edges[i].get_mut(w) { *x = json!(rng.gen_range(1..=pad)); } }
            "retarget-edge"
        }
        5 => {
            // re-key a node (possibly producing a repeated key and orphaned edges)
            let nodes = arr[0].as_array_mut().unwrap();
            if let Some(i) = pick(rng, nodes) { if let Some(x) = nodes[i].get_mut(0) { *x = json!(rng.gen_range(1..=pad)); } }
            "rekey-node"
        }
        6 => {
            // retype something
            let repl = [json!("x"), json!(1.5), json!(null), json!(-7), json!(4294967296u64), json!([1]), json!({"a": 1}), json!(true)];
            let r = repl[rng.gen_range(0..repl.len())].clone();
            let which = rng.gen_range(0..2);
            let inner = arr[which].as_array_mut().unwrap();
            match pick(rng, inner) {
                Some(i) if inner[i].as_array().map(|t| !t.is_empty()).unwrap_or(false) => {
                    let t = inner[i].as_array_mut().unwrap();
                    let j = rng.gen_range(0..t.len());
                    t[j] = r;
                }
                Some(i) => inner[i] = r,
                None => arr[which] = r,
            }
            "retype"
        }
        7 => {
            arr.truncate(rng.gen_range(0..2));
            "drop-top-level-element"
        }
        8 => {
            arr.push(json!([]));
            "extra-top-level-element"
        }
        9 => {
            // shorten / lengthen a tuple
            let which = rng.gen_range(0..2);
            let inner = arr[which].as_array_mut().unwrap();
            if let Some(i) = pick(rng, inner) {
                if let Some(t) = inner[i].as_array_mut() {
                    if rng.gen_bool(0.5) { t.pop(); } else { t.push(json!(1)); }
                }
            }
            "tuple-arity"
        }
        10 => {
            arr.swap(0, 1);
            "swap-node-and-edge-lists"
        }
        _ => {
            let nodes = arr[0].as_array_mut().unwrap();
            nodes.clear();
            "no-nodes"
        }
    }
}

pub fn record_untrusted(opts: &HashMap<String, String>) -> Value {
    let fl = opts.get("flavour").expect("--flavour").clone();
    with_flavour!(fl.as_str(), record_untrusted_fl(opts))
}

/// seeded structural and byte-level mutations of valid documents
fn record_untrusted_fl<F: Fl>(opts: &HashMap<String, String>) -> Value {
    let pad: usize = opts.get("pad").map(|s| s.parse().unwrap()).unwrap_or(6);
    let count: usize = opts.get("mutations").map(|s| s.parse().unwrap()).unwrap_or(2000);
    let seed: u64 = opts.get("seed").map(|s| s.parse().unwrap()).unwrap_or(1);
    let path = opts.get("trace").expect("--trace");
    let mut f = std::io::BufWriter::new(std::fs::File::create(path).expect("create trace"));
    let mut rng = StdRng::seed_from_u64(seed ^ 0xc13);
    let mut by_kind: HashMap<String, usize> = HashMap::new();
    let mut by_outcome: HashMap<String, usize> = HashMap::new();
    let mut with_doc = 0usize;
    let mut distinct: HashSet<Vec<u8>> = HashSet::new();
    for i in 0..count {
        // a valid seed document: serialisation of a small random graph on keys 1..n, n <= pad-2
        let n = rng.gen_range(1..=(pad - 2).max(1));
        let mut st = AState::empty(n);
        for _ in 0..rng.gen_range(0..=n + 1) {
            let u = rng.gen_range(1..=n as K);
            let v = rng.gen_range(1..=n as K);
            let e = rng.gen_range(1..=3);
            st.out[(u - 1) as usize].push((v, e));
            st.inn[(v - 1) as usize].push((u, e));
        }
        let fmt = if i % 2 == 0 { Fmt::Json } else { Fmt::Cbor };
        let order: Vec<K> = (1..=n as K).collect();
        let bytes0 = {
            let (_w, g) = fresh_graph::<F>(&st, &order);
            match ser::<F>(&g, fmt) { Ok(b) => b, Err(_) => continue }
        };
        let (bytes, kind): (Vec<u8>, String) = if i % 4 == 3 {
            // byte level: truncate / flip / insert
            let mut b = bytes0.clone();
            let k = rng.gen_range(0..3);
            if !b.is_empty() {
                match k {
                    0 => { let cut = rng.gen_range(0..b.len()); b.truncate(cut); }
                    1 => { let p = rng.gen_range(0..b.len()); b[p] ^= 1 << rng.gen_range(0..8); }
                    _ => { let p = rng.gen_range(0..=b.len()); b.insert(p, rng.gen()); }
                }
            }
            (b, ["byte-truncate", "byte-flip", "byte-insert"][k].to_string())
        } else {
            let mut v = match generic(&bytes0, fmt) { Some(v) => v, None => continue };
            if !v.as_array().map(|a| a.len() == 2 && a[0].is_array() && a[1].is_array()).unwrap_or(false) {
                continue;
            }
            let mut kinds = vec![];
            for _ in 0..rng.gen_range(1..=2) {
                if v.as_array().map(|a| a.len() == 2 && a[0].is_array() && a[1].is_array()).unwrap_or(false) {
                    kinds.push(mutate_value(&mut v, &mut rng, pad));
                }
            }
            (render(&v, fmt), kinds.join("+"))
        };
        *by_kind.entry(kind.clone()).or_insert(0) += 1;
        distinct.insert(bytes.clone());
        let doc = generic(&bytes, fmt).and_then(|v| abstract_doc(&v, pad));
        let o = untrusted_outcome::<F>(bytes.clone(), fmt, pad);
        *by_outcome.entry(o["rt"].as_str().unwrap().to_string()).or_insert(0) += 1;
        let text = if fmt == Fmt::Json { String::from_utf8_lossy(&bytes).to_string() } else { bytes.iter().map(|b| format!("{:02x}", b)).collect() };
        let mut doc = doc;
        let res = if o["rt"] == json!("graph") {
            // TLC integers are 32 bit: node values beyond that are logged as 0 and the
            // document is then judged without its abstract form (invariants only)
            let mut r = o["res"].clone();
            let mut clipped = false;
            if let Some(vs) = r["vals"].as_array_mut() {
                for x in vs.iter_mut() {
                    if x.as_i64().map(|v| v.abs() > 1_000_000).unwrap_or(true) {
                        *x = json!(0);
                        clipped = true;
                    }
                }
            }
            if clipped || r["beyond"] != json!([]) {
                doc = None;
            }
            r
        } else { json!({"keys": [], "vals": vec![0; pad], "out": vec![Vec::<i64>::new(); pad], "inn": vec![Vec::<i64>::new(); pad]}) };
        if doc.is_some() {
            with_doc += 1;
        }
        writeln!(f, "{}", json!({"ev": "untrusted", "fmt": fmt.name(), "mutation": kind, "hasdoc": doc.is_some(),
            "doc": doc.unwrap_or(json!([[], []])), "rt": o["rt"], "res": res,
            "detail": if o["rt"] == json!("graph") { json!("") } else { json!(o["res"].to_string()) }, "input": text})).unwrap();
    }
    f.flush().unwrap();
    json!({"flavour": F::NAME, "events": count, "by_mutation": by_kind, "by_outcome": by_outcome, "with_abstract_doc": with_doc,
           "distinct_inputs": distinct.len()})
}
