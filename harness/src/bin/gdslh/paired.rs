//! C15: the same single-threaded program on a plain flavour and its sync twin.

use crate::container::{parse_dot, CWorld};
use crate::search::{res_tag, run_query};
use gdslh::*;
use rand::rngs::StdRng;
use rand::{Rng, SeedableRng};
use serde_json::{json, Value};
use std::collections::{HashMap, HashSet};
use std::io::Write;

fn canon_sorted(v: &Value) -> Value {
    let mut a: Vec<Value> = v.as_array().cloned().unwrap_or_default();
    a.sort_by_key(|x| x.to_string());
    json!(a)
}

fn state_text<F: Fl>(w: &CWorld<F>) -> String {
    match guarded(|| (w.mem(), w.state(), w.views())) {
        Guarded::Ok((m, s, v)) => json!({"mem": m, "out": s.out, "inn": s.inn, "views": v}).to_string(),
        o => format!("{:?}", o.failure()),
    }
}

/// one query on one world, canonical JSON
fn query<F: Fl>(w: &CWorld<F>, q: &Value, rng_rej: &HashSet<Triple>) -> Value {
    let nk = w.nk;
    let world = World::<F> { nodes: w.objs[..nk].to_vec(), graph: F::g_new(), keys: (1..=nk as K).collect() };
    match q["q"].as_str().unwrap() {
        "search" => {
            let query = Query {
                kind: Kind::parse(q["kind"].as_str().unwrap()),
                entry: Entry::parse(q["entry"].as_str().unwrap()),
                target: q["target"].as_u64().filter(|t| *t != 0).map(|t| t as K),
                transpose: q["transpose"].as_bool().unwrap(),
                meth: match q["meth"].as_str().unwrap() { "plain" => Meth::Plain, "for_each" => Meth::ForEach, _ => Meth::Filter },
                repeat: false,
                late: q["closure_first"].as_bool().unwrap_or(false),
            };
            let o = run_query(&world, q["root"].as_u64().unwrap() as K, &query, rng_rej);
            json!({"res": o.res, "rt": res_tag(&o.res), "examined": o.examined})
        }
        "obs" => match guarded(|| world.obs()) { Guarded::Ok(o) => json!(o), o => json!(o.failure()) },
        "lists" => match guarded(|| (world.project(), world.nodes.iter().map(|n| F::into_iter_list(n)).collect::<Vec<_>>())) {
            Guarded::Ok((s, it)) => {
                // undirected: the public adjacency only (the split is a cfg-only observer)
                let adj: Vec<Vec<(K, EV)>> = (0..nk).map(|i| [s.out[i].clone(), s.inn[i].clone()].concat()).collect();
                if F::DIRECTED { json!({"out": s.out, "inn": s.inn, "into_iter": it}) } else { json!({"adj": adj, "into_iter": it}) }
            }
            o => json!(o.failure()),
        },
        "edge_eq" => {
            let a = &w.objs[(q["a"].as_u64().unwrap() - 1) as usize];
            match guarded(|| F::edge_eq_table(a)) { Guarded::Ok(t) => json!(t), o => json!(o.failure()) }
        }
        "cmp" => {
            let a = &w.objs[(q["a"].as_u64().unwrap() - 1) as usize];
            let b = &w.objs[(q["b"].as_u64().unwrap() - 1) as usize];
            match guarded(|| F::compare(a, b)) { Guarded::Ok(c) => c, o => json!(o.failure()) }
        }
        "scc" => match guarded(|| F::g_scc(&w.g)) {
            Guarded::Ok(Some(c)) => {
                let mut v: Vec<Vec<K>> = c;
                for x in v.iter_mut() { x.sort(); }
                v.sort();
                json!(v)
            }
            Guarded::Ok(None) => json!("n/a"),
            o => json!(o.failure()),
        },
        "json" => match guarded(|| F::g_to_json(&w.g)) {
            Guarded::Ok(Ok(s)) => {
                let v: Value = serde_json::from_str(&s).unwrap_or(json!(null));
                let nodes = canon_sorted(&v[0]);
                // per source node, edges in listed order
                let mut per: std::collections::BTreeMap<u64, Vec<Value>> = Default::default();
                for e in v[1].as_array().cloned().unwrap_or_default() {
                    per.entry(e[0].as_u64().unwrap_or(0)).or_default().push(e);
                }
                json!({"nodes": nodes, "edges_by_source": per.into_iter().collect::<Vec<_>>()})
            }
            Guarded::Ok(Err(e)) => json!({ "err": e }),
            o => json!(o.failure()),
        },
        "cbor_roundtrip" => match guarded(|| F::g_to_cbor(&w.g).and_then(|b| F::g_from_cbor(&b)).map(|g2| {
            let mut ks: Vec<K> = F::g_iter(&g2).iter().map(|x| x.0).collect();
            ks.sort();
            let lists: Vec<Value> = ks.iter().map(|k| { let n = F::g_get(&g2, *k).unwrap(); json!([k, F::val(&n), F::into_iter_list(&n).len()]) }).collect();
            json!(lists)
        })) {
            Guarded::Ok(Ok(v)) => v,
            // which dangling edge is reported first depends on the container order
            Guarded::Ok(Err(_)) => json!("err"),
            o => json!(o.failure()),
        },
        "dot" => match guarded(|| F::g_to_dot(&w.g)) {
            Guarded::Ok(t) => {
                let d = parse_dot(&t);
                json!({"header": d["header"], "nodes": canon_sorted(&d["nodes"]), "edges": canon_sorted(&d["edges"])})
            }
            o => json!(o.failure()),
        },
        _ => json!("unknown"),
    }
}

pub fn record(opts: &HashMap<String, String>) -> Value {
    match opts.get("pair").expect("--pair directed|undirected").as_str() {
        "directed" => record_pair::<Digraph, SyncDigraph>(opts),
        _ => record_pair::<Ungraph, SyncUngraph>(opts),
    }
}

fn record_pair<A: Fl, B: Fl>(opts: &HashMap<String, String>) -> Value {
    let nk: usize = opts.get("nk").map(|s| s.parse().unwrap()).unwrap_or(5);
    let nd: usize = opts.get("nd").map(|s| s.parse().unwrap()).unwrap_or(1);
    let seed: u64 = opts.get("seed").map(|s| s.parse().unwrap()).unwrap_or(1);
    let programs: usize = opts.get("programs").map(|s| s.parse().unwrap()).unwrap_or(20);
    let calls: usize = opts.get("calls").map(|s| s.parse().unwrap()).unwrap_or(200);
    let path = opts.get("trace").expect("--trace");
    let mut f = std::io::BufWriter::new(std::fs::File::create(path).expect("create trace"));
    let mut rng = StdRng::seed_from_u64(seed ^ 0xc15);
    let mut events = 0usize;
    let mut by: HashMap<String, usize> = HashMap::new();
    let mut distinct: HashSet<String> = HashSet::new();
    for _ in 0..programs {
        let st0 = AState::empty(nk);
        let mem0 = vec![0i64; nk];
        let mut wa = CWorld::<A>::build(nk, nd, &mem0, &st0).unwrap();
        let mut wb = CWorld::<B>::build(nk, nd, &mem0, &st0).unwrap();
        writeln!(f, "{}", json!({"ev": "cstate", "mem": mem0, "out": st0.out, "inn": st0.inn})).unwrap();
        events += 1;
        for c in 0..calls {
            let r = rng.gen_range(0..100);
            if r < 55 {
                // a mutation
                let m = rng.gen_range(0..100);
                let op = if m < 22 { json!(["insert", rng.gen_range(1..=nk + nd)]) }
                    else if m < 32 { json!(["remove", rng.gen_range(1..=nk)]) }
                    else if m < 62 { json!(["connect", rng.gen_range(1..=nk), rng.gen_range(1..=nk), rng.gen_range(1..=3)]) }
                    else if m < 70 { json!(["try_connect", rng.gen_range(1..=nk), rng.gen_range(1..=nk), rng.gen_range(1..=3)]) }
                    else if m < 93 { json!(["disconnect", rng.gen_range(1..=nk), rng.gen_range(1..=nk)]) }
                    else { json!(["isolate", rng.gen_range(1..=nk)]) };
                *by.entry(op[0].as_str().unwrap().to_string()).or_insert(0) += 1;
                let ra = wa.apply(&op, c);
                let rb = wb.apply(&op, c);
                let sa = state_text(&wa);
                let sb = state_text(&wb);
                distinct.insert(format!("{}{}", op, sa));
                let fail = ra.as_str().map(|s| s.starts_with("panic:") || s.starts_with("deadlock:")).unwrap_or(false);
                let post = guarded(|| (wa.mem(), wa.state(), wa.views()));
                match post {
                    Guarded::Ok((m, s, v)) if !fail => {
                        writeln!(f, "{}", json!({"ev": "pop", "rt": "ok", "op": op, "res": ra, "mem": m, "out": s.out, "inn": s.inn, "views": v,
                            "r1": ra.to_string(), "r2": rb.to_string(), "s1": sa, "s2": sb})).unwrap();
                        events += 1;
                    }
                    _ => {
                        writeln!(f, "{}", json!({"ev": "pop", "rt": "fail", "op": op, "res": ra.to_string(),
                            "r1": ra.to_string(), "r2": rb.to_string(), "s1": sa, "s2": sb})).unwrap();
                        events += 1;
                        break;
                    }
                }
            } else {
                let kinds = ["search", "search", "search", "obs", "lists", "cmp", "edge_eq", "scc", "json", "cbor_roundtrip", "dot"];
                let kq = kinds[rng.gen_range(0..kinds.len())];
                // scc() is specified only for containers whose members' neighbours are all members
                let kq = if kq == "scc" {
                    let m = wa.mem();
                    let st = wa.state();
                    let closed = (0..nk).all(|i| (m[i] == (i + 1) as i64) || (m[i] == 0 && st.out[i].is_empty() && st.inn[i].is_empty()));
                    if closed { "scc" } else { "obs" }
                } else { kq };
                let mut q = json!({"q": kq});
                let mut rej: HashSet<Triple> = HashSet::new();
                if kq == "search" {
                    let kind = Kind::ALL[rng.gen_range(0..6)];
                    let cyc = !kind.is_order() && rng.gen_bool(0.3);
                    let entry = if cyc { Entry::SearchCycle } else if kind.is_order() { if rng.gen_bool(0.5) { Entry::SearchNodes } else { Entry::SearchEdges } }
                        else if rng.gen_bool(0.5) { Entry::SearchPath } else { Entry::Search };
                    let root = rng.gen_range(1..=nk);
                    let target = if kind.is_order() || cyc || rng.gen_bool(0.15) { 0 } else { rng.gen_range(1..=nk) };
                    let meth = ["plain", "for_each", "filter"][rng.gen_range(0..3)];
                    if meth == "filter" && rng.gen_bool(0.6) {
                        let thr = rng.gen_range(1..=3);
                        for u in 1..=nk as K { for v in 1..=nk as K { rej.insert((u, v, thr)); } }
                    }
                    q = json!({"q": "search", "kind": kind.name(), "entry": entry.name(), "root": root, "target": target,
                               "transpose": A::DIRECTED && rng.gen_bool(0.4), "meth": meth, "closure_first": rng.gen_bool(0.5),
                               "rejects_value": rej.iter().next().map(|t| t.2).unwrap_or(0)});
                } else if kq == "edge_eq" {
                    q["a"] = json!(rng.gen_range(1..=nk));
                } else if kq == "cmp" {
                    q["a"] = json!(rng.gen_range(1..=nk + nd));
                    q["b"] = json!(rng.gen_range(1..=nk + nd));
                }
                *by.entry(kq.to_string()).or_insert(0) += 1;
                let ra = query(&wa, &q, &rej);
                let rb = query(&wb, &q, &rej);
                let sa = state_text(&wa);
                let sb = state_text(&wb);
                distinct.insert(format!("{}{}", q, sa));
                writeln!(f, "{}", json!({"ev": "pq", "query": q, "r1": ra.to_string(), "r2": rb.to_string(), "s1": sa, "s2": sb})).unwrap();
                events += 1;
            }
        }
    }
    f.flush().unwrap();
    json!({"pair": [A::NAME, B::NAME], "events": events, "programs": programs, "by_call": by, "distinct_nontrivial": distinct.len(),
           "lock_points_seen": guard::LOCK_POINTS.load(std::sync::atomic::Ordering::Relaxed)})
}
