//! C04-C10: replay of the finished runs TLC emits from MC_Search into the real
//! traversals, and recording of searches on random larger graphs.

use gdslh::*;
use rand::rngs::StdRng;
use rand::{Rng, SeedableRng};
use serde_json::{json, Value};
use std::collections::{HashMap, HashSet};
use std::io::Write;

fn lists(v: &Value) -> Lists {
    serde_json::from_value(v.clone()).expect("lists")
}
fn triples(v: &Value) -> Vec<Triple> {
    serde_json::from_value(v.clone()).expect("triples")
}

/// what one execution of a traversal showed
#[derive(Debug, Clone, PartialEq)]
pub struct Observed {
    pub res: Value,
    pub examined: Option<Vec<Triple>>,
}

pub fn run_query<F: Fl>(w: &World<F>, root: K, q: &Query, rej: &HashSet<Triple>) -> Observed {
    let mut examined: Vec<Triple> = vec![];
    let record = q.meth != Meth::Plain;
    let r = {
        let mut cb = |u: K, v: K, e: EV| {
            examined.push((u, v, e));
            !rej.contains(&(u, v, e))
        };
        guarded(|| F::search(w.node(root), q, &mut cb))
    };
    let res = match r {
        Guarded::Ok(Ok(s)) => s.to_json(),
        Guarded::Ok(Err(e)) => json!({ "unsupported": e }),
        other => json!(other.failure().unwrap()),
    };
    Observed { res, examined: if record { Some(examined) } else { None } }
}

pub fn res_tag(v: &Value) -> &'static str {
    if v == &json!("none") {
        return "none";
    }
    if let Some(o) = v.as_object() {
        for k in ["node", "path", "nodes", "edges"] {
            if o.contains_key(k) {
                return match k {
                    "node" => "node",
                    "path" => "path",
                    "nodes" => "nodes",
                    _ => "edges",
                };
            }
        }
    }
    "fail"
}

fn meths(rej_empty: bool) -> Vec<Meth> {
    if rej_empty {
        vec![Meth::Plain, Meth::ForEach, Meth::Filter]
    } else {
        vec![Meth::Filter]
    }
}
fn meth_name(m: Meth) -> &'static str {
    match m {
        Meth::Plain => "plain",
        Meth::ForEach => "for_each",
        Meth::Filter => "filter",
    }
}

fn hist_edges(h: &Value, upto: usize) -> Vec<Triple> {
    h.as_array().unwrap()[..upto]
        .iter()
        .map(|x| (x[0].as_u64().unwrap() as K, x[1].as_u64().unwrap() as K, x[2].as_i64().unwrap()))
        .collect()
}

pub fn replay(opts: &HashMap<String, String>) -> Value {
    let fl = opts.get("flavour").expect("--flavour").clone();
    with_flavour!(fl.as_str(), replay_fl(opts))
}

fn replay_fl<F: Fl>(opts: &HashMap<String, String>) -> Value {
    let cases = opts.get("cases").expect("--cases");
    let max_viol: usize = opts.get("max-violations").map(|s| s.parse().unwrap()).unwrap_or(6000);
    let mut n_cases = 0usize;
    let mut n_exec = 0usize;
    let mut agree = 0usize;
    let mut mismatches: Vec<Value> = vec![];
    let mut n_mismatch = 0usize;
    let mut nontrivial: HashSet<u64> = HashSet::new();
    let mut samples: Vec<Value> = vec![];
    let mut by_kind: HashMap<String, usize> = HashMap::new();
    // disagreements are kept per class, so that one frequent (possibly harmless) class
    // cannot crowd out a rare one before TLC has judged it
    let mut per_bucket: HashMap<String, usize> = HashMap::new();
    let bucket_cap: usize = opts.get("bucket-cap").map(|s| s.parse().unwrap()).unwrap_or(25);
    use std::hash::{Hash, Hasher};

    tlcio::for_each_case(cases, |case| {
        n_cases += 1;
        let st = AState { out: lists(&case["out"]), inn: lists(&case["inn"]) };
        let nval: Vec<NV> = serde_json::from_value(case["nval"].clone()).unwrap();
        let q = &case["q"];
        let kind = Kind::parse(q["kind"].as_str().unwrap());
        let root = q["root"].as_u64().unwrap() as K;
        let transpose = q["dir"].as_str().unwrap() == "in";
        let cyc = q["cyc"].as_bool().unwrap();
        let rej: HashSet<Triple> = triples(&q["rej"]).into_iter().collect();
        let hist = &case["hist"];
        let hist_len = hist.as_array().unwrap().len();
        *by_kind.entry(format!("{}{}{}", kind.name(), if cyc { "/cycle" } else { "" }, if transpose { "/transposed" } else { "" })).or_insert(0) += 1;
        let n = st.n();
        // (entry, target, expected result, expected examined length)
        let mut plan: Vec<(Entry, Option<K>, Value, usize)> = vec![];
        if cyc {
            let c = &case["res"]["cycle"];
            let exp = if c["found"].as_bool().unwrap() { json!({"path": c["path"]}) } else { json!("none") };
            plan.push((Entry::SearchCycle, None, exp, hist_len));
        } else if kind.is_order() {
            plan.push((Entry::SearchNodes, None, json!({"nodes": case["res"]["nodes"]}), hist_len));
            plan.push((Entry::SearchEdges, None, json!({"edges": case["res"]["edges"]}), hist_len));
        } else {
            plan.push((Entry::SearchPath, None, json!("none"), hist_len));
            plan.push((Entry::Search, None, json!("none"), hist_len));
            for t in 1..=n as K {
                if t == root {
                    continue;
                }
                let tr = &case["res"]["targets"][(t - 1) as usize];
                let ex = tr["examined"].as_u64().unwrap() as usize;
                if tr["found"].as_bool().unwrap() {
                    plan.push((Entry::SearchPath, Some(t), json!({"path": tr["path"]}), ex));
                    plan.push((Entry::Search, Some(t), json!({"node": t}), ex));
                } else {
                    plan.push((Entry::SearchPath, Some(t), json!("none"), ex));
                    plan.push((Entry::Search, Some(t), json!("none"), ex));
                }
            }
        }
        for (entry, target, exp_res, exp_len) in plan {
            for m in meths(rej.is_empty()) {
              // the same builder value used twice (search_path twice, search_edges after search_nodes ..)
              let repeats: &[bool] = if matches!(entry, Entry::SearchPath | Entry::SearchNodes | Entry::SearchEdges) && m != Meth::ForEach { &[false, true] } else { &[false] };
              for &repeat in repeats {
                let w = match guarded(|| World::<F>::build(&st, Some(&nval))) {
                    Guarded::Ok(Ok(w)) => w,
                    _ => continue, // the adjacency checks own this failure
                };
                // builder chain order alternates: options first / closure first
                let late = m != Meth::Plain && n_exec % 2 == 1;
                let query = Query { kind, entry, target, transpose, meth: m, repeat, late };
                let mut obs = run_query(&w, root, &query, &rej);
                n_exec += 1;
                let exp_ex = hist_edges(hist, exp_len);
                if repeat {
                    // a pure traversal examines the same edges both times
                    // (compare the two observed halves with EACH OTHER, not with the model: a different but
                    // legitimate examination order must stay a drift, not become a failure)
                    if let Some(e) = obs.examined.take() {
                        let h = e.len() / 2;
                        if e.len() % 2 == 0 && e[..h] == e[h..] {
                            obs.examined = Some(e[..h].to_vec());
                        } else {
                            obs.res = json!({"unsupported": "second use of the same builder examined different edges"});
                        }
                    }
                }
                let ok = obs.res == exp_res && obs.examined.as_ref().map(|e| *e == exp_ex).unwrap_or(true);
                // the graph must be untouched by a search
                let unchanged = w.project_guarded().ok().as_ref() == Some(&st);
                if st.edges() > 0 {
                    let mut h = std::collections::hash_map::DefaultHasher::new();
                    st.hash(&mut h);
                    q.to_string().hash(&mut h);
                    case["nval"].to_string().hash(&mut h);
                    (entry.name(), target, meth_name(m), repeat).hash(&mut h);
                    nontrivial.insert(h.finish());
                }
                if ok && unchanged {
                    agree += 1;
                    if samples.len() < 6 && st.edges() >= 3 && exp_res != json!("none") && n_exec % 211 == 0 {
                        samples.push(json!({"flavour": F::NAME, "out": st.out, "inn": st.inn, "nval": nval, "q": q,
                            "entry": entry.name(), "target": target, "meth": meth_name(m), "observed": obs.res,
                            "examined": obs.examined}));
                    }
                } else {
                    n_mismatch += 1;
                    let bucket = format!("{}|{}|{}|{}|{}|{}|{}|{}|{}", repeat, kind.name(), q["dir"], cyc, entry.name(), meth_name(m), rej.len().min(2),
                        if obs.res != exp_res { res_tag(&obs.res) } else { "examined-only" }, res_tag(&exp_res));
                    let cnt = per_bucket.entry(bucket).or_insert(0);
                    *cnt += 1;
                    if *cnt <= bucket_cap && mismatches.len() < max_viol {
                        mismatches.push(json!({"flavour": F::NAME, "out": st.out, "inn": st.inn, "nval": nval,
                            "kind": kind.name(), "root": root, "dir": q["dir"], "cyc": cyc, "rej": q["rej"],
                            "target": target.unwrap_or(0), "entry": entry.name(), "meth": meth_name(m), "builder_reused": repeat, "closure_first": late,
                            "res": obs.res, "rt": res_tag(&obs.res), "examined": obs.examined,
                            "expected_res": exp_res, "expected_examined": exp_ex, "graph_unchanged": unchanged}));
                    }
                }
              }
            }
        }
    })
    .expect("read cases");
    json!({"flavour": F::NAME, "cases": n_cases, "executions": n_exec, "agree": agree, "n_mismatch": n_mismatch,
           "mismatches": mismatches, "mismatch_classes": per_bucket, "samples": samples, "distinct_nontrivial": nontrivial.len(), "by_kind": by_kind,
           "lock_points_seen": guard::LOCK_POINTS.load(std::sync::atomic::Ordering::Relaxed)})
}

/// Node comparison table (C06): all pairs of (key, value) combinations
pub fn compare_table(opts: &HashMap<String, String>) -> Value {
    let fl = opts.get("flavour").expect("--flavour").clone();
    with_flavour!(fl.as_str(), compare_fl(opts))
}

fn compare_fl<F: Fl>(opts: &HashMap<String, String>) -> Value {
    let keys: u32 = opts.get("keys").map(|s| s.parse().unwrap()).unwrap_or(3);
    let vals: i64 = opts.get("vals").map(|s| s.parse().unwrap()).unwrap_or(3);
    let mut rows = vec![];
    for k1 in 1..=keys {
        for v1 in 0..vals {
            for k2 in 1..=keys {
                for v2 in 0..vals {
                    let a = F::node(k1, v1);
                    let b = F::node(k2, v2);
                    let c = match guarded(|| F::compare(&a, &b)) {
                        Guarded::Ok(c) => c,
                        o => json!(o.failure()),
                    };
                    rows.push(json!({"ev": "cmp", "a": [k1, v1], "b": [k2, v2], "obs": c}));
                }
            }
        }
    }
    if let Some(p) = opts.get("trace") {
        let mut f = std::io::BufWriter::new(std::fs::File::create(p).unwrap());
        for r in &rows {
            writeln!(f, "{}", r).unwrap();
        }
    }
    json!({"flavour": F::NAME, "rows": rows.len()})
}

/// random larger graphs: every query is logged as one event for TraceSearch
pub fn record(opts: &HashMap<String, String>) -> Value {
    let fl = opts.get("flavour").expect("--flavour").clone();
    with_flavour!(fl.as_str(), record_fl(opts))
}

fn record_fl<F: Fl>(opts: &HashMap<String, String>) -> Value {
    let seed: u64 = opts.get("seed").map(|s| s.parse().unwrap()).unwrap_or(1);
    let graphs: usize = opts.get("graphs").map(|s| s.parse().unwrap()).unwrap_or(20);
    let maxn: usize = opts.get("nodes").map(|s| s.parse().unwrap()).unwrap_or(12);
    let pad: usize = opts.get("pad").map(|s| s.parse().unwrap()).unwrap_or(maxn);
    let kinds: Vec<Kind> = opts.get("kinds").map(|s| s.split(',').map(Kind::parse).collect()).unwrap_or(Kind::ALL.to_vec());
    let cyc_modes: Vec<bool> = opts.get("cyc").map(|s| s.split(',').map(|x| x == "true").collect()).unwrap_or(vec![false, true]);
    let dirs: Vec<bool> = opts.get("transposed").map(|s| s.split(',').map(|x| x == "true").collect()).unwrap_or(vec![false, true]);
    let per_graph: usize = opts.get("queries").map(|s| s.parse().unwrap()).unwrap_or(30);
    let path = opts.get("trace").expect("--trace");
    let mut f = std::io::BufWriter::new(std::fs::File::create(path).expect("create trace"));
    let mut rng = StdRng::seed_from_u64(seed.wrapping_mul(0x2545F4914F6CDD1D) ^ (F::NAME.len() as u64));
    let mut events = 0usize;
    let mut shapes: HashMap<&'static str, usize> = HashMap::new();
    for gi in 0..graphs {
        let n = rng.gen_range(4..=maxn);
        let shape = ["random", "layered", "cyclic", "multi-component", "dense-multigraph", "tree+back"][gi % 6];
        *shapes.entry(shape).or_insert(0) += 1;
        let nval: Vec<NV> = (0..n).map(|_| rng.gen_range(0..5)).collect();
        let w = World::<F>::new(n, Some(&nval));
        let ne = match shape {
            "dense-multigraph" => n * 3,
            "cyclic" => n + n / 2,
            _ => n + rng.gen_range(0..n),
        };
        let mut edges: Vec<Triple> = vec![];
        for j in 0..ne {
            let (u, v) = match shape {
                "layered" => {
                    let u = rng.gen_range(1..n);
                    (u as K, rng.gen_range(u + 1..=n) as K)
                }
                "cyclic" => {
                    if j < n { ((j + 1) as K, ((j + 1) % n + 1) as K) } else { (rng.gen_range(1..=n) as K, rng.gen_range(1..=n) as K) }
                }
                "multi-component" => {
                    let half = n / 2;
                    if rng.gen_bool(0.5) { (rng.gen_range(1..=half.max(1)) as K, rng.gen_range(1..=half.max(1)) as K) }
                    else { (rng.gen_range(half + 1..=n) as K, rng.gen_range(half + 1..=n) as K) }
                }
                "tree+back" => {
                    if j + 2 <= n { (rng.gen_range(1..=(j + 1)) as K, (j + 2) as K) } else { (rng.gen_range(1..=n) as K, rng.gen_range(1..=n) as K) }
                }
                _ => (rng.gen_range(1..=n) as K, rng.gen_range(1..=n) as K),
            };
            edges.push((u, v, rng.gen_range(1..=3)));
        }
        for &(u, v, e) in &edges {
            F::connect(w.node(u), w.node(v), e);
        }
        let st = w.project();
        let mut o = st.out.clone();
        let mut i = st.inn.clone();
        o.resize(pad, vec![]);
        i.resize(pad, vec![]);
        let mut nv = nval.clone();
        nv.resize(pad, 0);
        writeln!(f, "{}", json!({"ev": "graph", "out": o, "inn": i, "nval": nv, "n": n, "shape": shape})).unwrap();
        events += 1;
        for _ in 0..per_graph {
            let kind = kinds[rng.gen_range(0..kinds.len())];
            let root = rng.gen_range(1..=n as K);
            let transpose = F::DIRECTED && dirs[rng.gen_range(0..dirs.len())];
            let cyc = !kind.is_order() && cyc_modes[rng.gen_range(0..cyc_modes.len())];
            // a pure filter: a random set of rejected triples, or a value threshold, or nothing
            let all: Vec<Triple> = (0..n)
                .flat_map(|a| {
                    let l = if !F::DIRECTED { [st.out[a].clone(), st.inn[a].clone()].concat() } else if transpose { st.inn[a].clone() } else { st.out[a].clone() };
                    l.into_iter().map(move |(p, e)| ((a + 1) as K, p, e))
                })
                .collect();
            let mode = rng.gen_range(0..4);
            let rej: HashSet<Triple> = match mode {
                0 => HashSet::new(),
                1 => all.iter().filter(|_| rng.gen_bool(0.2)).cloned().collect(),
                2 => all.iter().filter(|t| t.2 == 1).cloned().collect(),
                _ => {
                    let b = rng.gen_range(1..=n as K);
                    all.iter().filter(|t| t.1 == b).cloned().collect()
                }
            };
            let meth = if !rej.is_empty() { Meth::Filter } else { [Meth::Plain, Meth::ForEach, Meth::Filter][rng.gen_range(0..3)] };
            let (entry, target) = if cyc {
                (Entry::SearchCycle, None)
            } else if kind.is_order() {
                (if rng.gen_bool(0.5) { Entry::SearchNodes } else { Entry::SearchEdges }, None)
            } else {
                let t = if rng.gen_bool(0.2) { None } else {
                    let mut t = rng.gen_range(1..=n as K);
                    if t == root { t = t % (n as K) + 1; }
                    Some(t)
                };
                (if rng.gen_bool(0.6) { Entry::SearchPath } else { Entry::Search }, t)
            };
            let late = meth != Meth::Plain && rng.gen_bool(0.5);
            let query = Query { kind, entry, target, transpose, meth, repeat: false, late };
            let obs = run_query(&w, root, &query, &rej);
            let mut rejv: Vec<Triple> = rej.iter().cloned().collect();
            rejv.sort();
            let mut ev = json!({"ev": "query", "kind": kind.name(), "root": root, "dir": if transpose { "in" } else { "out" },
                "cyc": cyc, "rej": rejv, "target": target.unwrap_or(0), "entry": entry.name(), "meth": meth_name(meth), "closure_first": late,
                "res": obs.res, "rt": res_tag(&obs.res)});
            if let Some(ex) = obs.examined {
                ev["examined"] = json!(ex);
            }
            writeln!(f, "{}", ev).unwrap();
            events += 1;
        }
    }
    f.flush().unwrap();
    json!({"flavour": F::NAME, "events": events, "graphs": graphs, "shapes": shapes,
           "lock_points_seen": guard::LOCK_POINTS.load(std::sync::atomic::Ordering::Relaxed)})
}

// ---------------------------------------------------------------------------
// C11: Graph::scc()

/// build the graph `st` and put its nodes into a FRESH container (own hash
/// state) in the given insertion order
fn scc_instance<F: Fl>(st: &AState, order: &[K]) -> Result<Value, String> {
    let w = match guarded(|| World::<F>::build(st, None)) {
        Guarded::Ok(Ok(w)) => w,
        o => return Err(format!("build: {:?}", o.failure())),
    };
    let mut g = F::g_new();
    for &k in order {
        F::g_insert(&mut g, w.node(k).clone());
    }
    match guarded(|| F::g_scc(&g)) {
        Guarded::Ok(Some(c)) => Ok(json!(c)),
        Guarded::Ok(None) => Err("scc not available on this flavour".into()),
        o => Err(o.failure().unwrap()),
    }
}

fn normalise(c: &Value) -> Vec<Vec<K>> {
    let mut v: Vec<Vec<K>> = serde_json::from_value(c.clone()).unwrap_or_default();
    for x in v.iter_mut() {
        x.sort();
    }
    v.sort();
    v
}

pub fn replay_scc(opts: &HashMap<String, String>) -> Value {
    let fl = opts.get("flavour").expect("--flavour").clone();
    with_flavour!(fl.as_str(), replay_scc_fl(opts))
}

fn replay_scc_fl<F: Fl>(opts: &HashMap<String, String>) -> Value {
    let cases = opts.get("cases").expect("--cases");
    let instances: usize = opts.get("instances").map(|s| s.parse().unwrap()).unwrap_or(4);
    let seed: u64 = opts.get("seed").map(|s| s.parse().unwrap()).unwrap_or(1);
    let max_viol: usize = opts.get("max-violations").map(|s| s.parse().unwrap()).unwrap_or(300);
    let mut rng = StdRng::seed_from_u64(seed);
    let (mut n_cases, mut n_exec, mut agree, mut n_mismatch) = (0usize, 0usize, 0usize, 0usize);
    let mut mismatches = vec![];
    let mut samples = vec![];
    let mut nontrivial: HashSet<u64> = HashSet::new();
    let mut distinct_results: HashMap<String, HashSet<String>> = HashMap::new();
    use std::hash::{Hash, Hasher};
    tlcio::for_each_case(cases, |case| {
        n_cases += 1;
        let st = AState { out: lists(&case["out"]), inn: lists(&case["inn"]) };
        let expected = normalise(&case["sccs"]);
        let n = st.n();
        for inst in 0..instances {
            let mut order: Vec<K> = (1..=n as K).collect();
            // rotate / shuffle the insertion order; every instance is a fresh hash map
            order.rotate_left(inst % n);
            if inst >= n {
                for i in (1..order.len()).rev() {
                    order.swap(i, rng.gen_range(0..=i));
                }
            }
            n_exec += 1;
            let obs = scc_instance::<F>(&st, &order);
            if st.edges() > 0 {
                let mut h = std::collections::hash_map::DefaultHasher::new();
                st.hash(&mut h);
                order.hash(&mut h);
                nontrivial.insert(h.finish());
            }
            let ok = match &obs {
                Ok(c) => {
                    distinct_results.entry(format!("{:?}", st)).or_default().insert(c.to_string());
                    let flat: usize = c.as_array().map(|a| a.iter().map(|x| x.as_array().map(|y| y.len()).unwrap_or(0)).sum()).unwrap_or(0);
                    normalise(c) == expected && flat == n
                }
                Err(_) => false,
            };
            if ok {
                agree += 1;
                if samples.len() < 5 && st.edges() >= 3 && expected.len() < n && n_exec % 37 == 0 {
                    samples.push(json!({"flavour": F::NAME, "out": st.out, "insertion_order": order, "scc": obs.as_ref().ok()}));
                }
            } else {
                n_mismatch += 1;
                if mismatches.len() < max_viol {
                    mismatches.push(json!({"flavour": F::NAME, "out": st.out, "inn": st.inn, "insertion_order": order,
                        "comps": obs.as_ref().ok(), "error": obs.as_ref().err(), "rt": if obs.is_ok() { "comps" } else { "fail" },
                        "expected": expected}));
                }
            }
        }
    })
    .expect("read cases");
    let order_dependent = distinct_results.values().filter(|s| s.len() > 1).count();
    json!({"flavour": F::NAME, "cases": n_cases, "executions": n_exec, "agree": agree, "n_mismatch": n_mismatch,
           "mismatches": mismatches, "samples": samples, "distinct_nontrivial": nontrivial.len(),
           "graphs_with_several_distinct_result_orders": order_dependent})
}

/// random directed graphs up to --nodes nodes: graph event + one scc event per container instance
pub fn record_scc(opts: &HashMap<String, String>) -> Value {
    let fl = opts.get("flavour").expect("--flavour").clone();
    with_flavour!(fl.as_str(), record_scc_fl(opts))
}

fn record_scc_fl<F: Fl>(opts: &HashMap<String, String>) -> Value {
    let seed: u64 = opts.get("seed").map(|s| s.parse().unwrap()).unwrap_or(1);
    let graphs: usize = opts.get("graphs").map(|s| s.parse().unwrap()).unwrap_or(20);
    let maxn: usize = opts.get("nodes").map(|s| s.parse().unwrap()).unwrap_or(12);
    let pad: usize = opts.get("pad").map(|s| s.parse().unwrap()).unwrap_or(maxn);
    let instances: usize = opts.get("instances").map(|s| s.parse().unwrap()).unwrap_or(3);
    let extra: usize = opts.get("extra").map(|s| s.parse().unwrap()).unwrap_or(0);
    let mut executions = 0usize;
    let path = opts.get("trace").expect("--trace");
    let mut f = std::io::BufWriter::new(std::fs::File::create(path).expect("create trace"));
    let mut rng = StdRng::seed_from_u64(seed ^ 0xabcdef);
    let mut events = 0;
    for gi in 0..graphs {
        let n = rng.gen_range(3..=maxn);
        // mixtures of nested cycles, DAG parts, self-loops, isolated nodes
        let ne = match gi % 4 { 0 => n, 1 => n + n / 2, 2 => 2 * n, _ => n / 2 + 1 };
        let mut st = AState::empty(n);
        for _ in 0..ne {
            let u = rng.gen_range(1..=n as K);
            let v = if rng.gen_bool(0.1) { u } else { rng.gen_range(1..=n as K) };
            st.out[(u - 1) as usize].push((v, 1));
            st.inn[(v - 1) as usize].push((u, 1));
        }
        let mut o = st.out.clone();
        let mut i = st.inn.clone();
        o.resize(pad, vec![]);
        i.resize(pad, vec![]);
        writeln!(f, "{}", json!({"ev": "graph", "out": o, "inn": i, "nval": vec![0; pad], "n": n})).unwrap();
        events += 1;
        // the first `instances` runs are all logged; `extra` further fresh containers (own hash
        // state, own insertion order) are run too and logged only when their partition is one
        // this graph has not shown yet (on correct code: never - the partition is unique)
        let mut seen: HashSet<String> = HashSet::new();
        for inst in 0..instances + extra {
            let mut order: Vec<K> = (1..=n as K).collect();
            for i in (1..order.len()).rev() {
                order.swap(i, rng.gen_range(0..=i));
            }
            executions += 1;
            let ev = match scc_instance::<F>(&st, &order) {
                Ok(c) => {
                    let fresh = seen.insert(format!("{:?}", normalise(&c)));
                    if inst >= instances && !fresh {
                        continue;
                    }
                    json!({"ev": "scc", "rt": "comps", "comps": c, "insertion_order": order})
                }
                Err(e) => json!({"ev": "scc", "rt": "fail", "comps": [], "error": e, "insertion_order": order}),
            };
            writeln!(f, "{}", ev).unwrap();
            events += 1;
        }
    }
    f.flush().unwrap();
    json!({"flavour": F::NAME, "events": events, "graphs": graphs, "executions": executions})
}

// ---------------------------------------------------------------------------
/// `--replay`: re-execute one stored case (adjacency operation or traversal query) and print what happens now
pub fn one_case(opts: &HashMap<String, String>) -> Value {
    let file = opts.get("case").expect("--case");
    let v: Value = serde_json::from_str(&std::fs::read_to_string(file).expect("read case")).expect("case json");
    let c = &v["case"];
    let fl = c["flavour"].as_str().unwrap_or("digraph").to_string();
    with_flavour!(fl.as_str(), one_case_fl(c))
}

fn one_case_fl<F: Fl>(c: &Value) -> Value {
    if c.get("op").is_some() && c.get("pre").is_some() {
        let pre = AState { out: lists(&c["pre"]["out"]), inn: lists(&c["pre"]["inn"]) };
        let w = match guarded(|| World::<F>::build(&pre, None)) {
            Guarded::Ok(Ok(w)) => w,
            o => return json!({"kind": "adjacency", "error": format!("{:?}", o.failure())}),
        };
        let variant = HANDLE_NAMES.iter().position(|n| Some(*n) == c["via"].as_str()).unwrap_or(0);
        let (res, used) = w.apply(&Op::from_json(&c["op"]), variant);
        let post = w.project_guarded();
        let obs = guarded(|| w.obs());
        return json!({"kind": "adjacency", "flavour": F::NAME, "pre": pre, "op": c["op"], "via": HANDLE_NAMES[used], "res": res,
                      "post": post.as_ref().ok(), "post_error": post.as_ref().err(),
                      "obs": match &obs { Guarded::Ok(o) => json!(o), o => json!(o.failure()) }});
    }
    if c.get("kind").is_some() && c.get("entry").is_some() {
        let st = AState { out: lists(&c["out"]), inn: lists(&c["inn"]) };
        let nval: Vec<NV> = serde_json::from_value(c["nval"].clone()).unwrap_or_else(|_| vec![0; st.n()]);
        let w = match guarded(|| World::<F>::build(&st, Some(&nval))) {
            Guarded::Ok(Ok(w)) => w,
            o => return json!({"kind": "query", "error": format!("{:?}", o.failure())}),
        };
        let rej: HashSet<Triple> = triples(&c["rej"]).into_iter().collect();
        let t = c["target"].as_u64().unwrap_or(0);
        let q = Query { kind: Kind::parse(c["kind"].as_str().unwrap()), entry: Entry::parse(c["entry"].as_str().unwrap()),
            target: if t == 0 { None } else { Some(t as K) }, transpose: c["dir"] == json!("in"),
            meth: match c["meth"].as_str().unwrap_or("plain") { "plain" => Meth::Plain, "for_each" => Meth::ForEach, _ => Meth::Filter },
            repeat: c["builder_reused"].as_bool().unwrap_or(false), late: c["closure_first"].as_bool().unwrap_or(false) };
        let mut o = run_query(&w, c["root"].as_u64().unwrap() as K, &q, &rej);
        if q.repeat {
            // the builder ran twice: a pure traversal examines the same edges both times
            if let Some(e) = o.examined.take() {
                let h = e.len() / 2;
                if e.len() % 2 == 0 && e[..h] == e[h..] {
                    o.examined = Some(e[..h].to_vec());
                } else {
                    o.res = json!({"unsupported": "second use of the same builder examined different edges"});
                    o.examined = None;
                }
            }
        }
        return json!({"kind": "query", "flavour": F::NAME, "out": st.out, "inn": st.inn, "nval": nval, "query": {"kind": c["kind"], "root": c["root"],
            "dir": c["dir"], "cyc": c["cyc"], "rej": c["rej"], "target": t, "entry": c["entry"], "meth": c["meth"]},
            "res": o.res, "rt": res_tag(&o.res), "examined": o.examined});
    }
    json!({"kind": "other", "note": "this kind of case is re-run by the quick check itself; the stored case is printed", "case": c})
}
