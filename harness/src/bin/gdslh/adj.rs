//! C01 / C02 / C03: replay of the cases TLC emits from MC_Adjacency, and
//! recording of random histories for TraceAdjacency.

use gdslh::*;
use rand::rngs::StdRng;
use rand::{Rng, SeedableRng};
use serde_json::{json, Value};
use std::collections::{HashMap, HashSet};
use std::io::Write;

fn lists(v: &Value) -> Lists {
    serde_json::from_value(v.clone()).expect("lists")
}

fn outcome_json(res: &Value, st: &Result<AState, String>) -> Value {
    match st {
        Ok(s) => json!({"res": res, "out": s.out, "inn": s.inn}),
        Err(e) => json!({"res": res, "state_error": e}),
    }
}

fn same_outcome(spec: &Value, res: &Value, st: &Result<AState, String>) -> bool {
    match st {
        Ok(s) => spec["res"] == *res && lists(&spec["out"]) == s.out && lists(&spec["inn"]) == s.inn,
        Err(_) => false,
    }
}

pub fn replay(opts: &HashMap<String, String>) -> Value {
    let fl = opts.get("flavour").expect("--flavour").clone();
    with_flavour!(fl.as_str(), replay_fl(opts))
}

fn replay_fl<F: Fl>(opts: &HashMap<String, String>) -> Value {
    let cases = opts.get("cases").expect("--cases");
    let max_viol: usize = opts.get("max-violations").map(|s| s.parse().unwrap()).unwrap_or(200);
    let mut n_states = 0usize;
    let mut n_ops = 0usize;
    let mut agree = 0usize;
    let mut drift = 0usize;
    let mut nontrivial: HashSet<u64> = HashSet::new();
    let mut violations: Vec<Value> = vec![];
    let mut n_viol = 0usize;
    let mut drifts: Vec<Value> = vec![];
    let mut samples: Vec<Value> = vec![];
    let mut handle_used = [0usize; HANDLE_VARIANTS];
    let mut variant = 0usize;
    let mut by_op: HashMap<String, usize> = HashMap::new();
    use std::hash::{Hash, Hasher};

    let n_lines = tlcio::for_each_case(cases, |case| {
        n_states += 1;
        let pre = AState { out: lists(&case["out"]), inn: lists(&case["inn"]) };
        // 1. the state itself: build it with connect() and compare projection + observers
        let built = guarded(|| World::<F>::build(&pre, None));
        let w = match built {
            Guarded::Ok(Ok(w)) => w,
            other => {
                n_viol += 1;
                if violations.len() < max_viol {
                    violations.push(json!({"kind": "build", "flavour": F::NAME, "pre": pre, "error": format!("{:?}", other.failure())}));
                }
                return;
            }
        };
        let proj = w.project_guarded();
        let obs = guarded(|| w.obs());
        let obs_ok = match &obs {
            Guarded::Ok(o) => json!(o) == case["obs"],
            _ => false,
        };
        if proj.as_ref().ok() != Some(&pre) || !obs_ok {
            n_viol += 1;
            if violations.len() < max_viol {
                violations.push(json!({"kind": "state", "flavour": F::NAME, "pre": pre,
                    "built_by": pre.linearise(),
                    "observed_state": proj.as_ref().ok(), "state_error": proj.as_ref().err(),
                    "observed_obs": match &obs { Guarded::Ok(o) => json!(o), o => json!(o.failure()) },
                    "expected_obs": case["obs"]}));
            }
        }
        drop(w);
        // 2. every operation from this state
        for opcase in case["ops"].as_array().expect("ops") {
            n_ops += 1;
            let op = Op::from_json(&opcase["op"]);
            variant += 1;
            let w = match guarded(|| World::<F>::build(&pre, None)) {
                Guarded::Ok(Ok(w)) => w,
                _ => continue,
            };
            let (res, used) = w.apply(&op, variant);
            handle_used[used] += 1;
            let post = w.project_guarded();
            *by_op.entry(opcase["op"][0].as_str().unwrap().to_string()).or_insert(0) += 1;
            let changed = post.as_ref().ok() != Some(&pre);
            if changed || pre.edges() > 0 {
                let mut h = std::collections::hash_map::DefaultHasher::new();
                pre.hash(&mut h);
                opcase["op"].to_string().hash(&mut h);
                nontrivial.insert(h.finish());
            }
            if same_outcome(&opcase["impl"], &res, &post) {
                agree += 1;
                if samples.len() < 6 && pre.edges() >= 2 && changed && n_ops % 97 == 0 {
                    samples.push(json!({"flavour": F::NAME, "pre": pre, "op": opcase["op"], "via": HANDLE_NAMES[used],
                        "observed": outcome_json(&res, &post)}));
                }
                continue;
            }
            let allowed = opcase["allowed"].as_array().map(|a| a.iter().any(|o| same_outcome(o, &res, &post))).unwrap_or(false);
            if allowed {
                drift += 1;
                if drifts.len() < 20 {
                    drifts.push(json!({"flavour": F::NAME, "pre": pre, "op": opcase["op"], "observed": outcome_json(&res, &post), "impl": opcase["impl"]}));
                }
            } else {
                n_viol += 1;
                if violations.len() < max_viol {
                    let pobs = guarded(|| w.obs());
                    violations.push(json!({"kind": "op", "flavour": F::NAME, "pre": pre, "op": opcase["op"],
                        "via": HANDLE_NAMES[used], "observed": outcome_json(&res, &post),
                        "observed_obs": match &pobs { Guarded::Ok(o) => json!(o), o => json!(o.failure()) },
                        "impl": opcase["impl"], "allowed": opcase["allowed"]}));
                }
            }
        }
    })
    .expect("read cases");
    json!({
        "flavour": F::NAME, "lines": n_lines, "states": n_states, "ops": n_ops, "agree": agree, "drift": drift,
        "n_violations": n_viol, "violations": violations, "drifts": drifts, "samples": samples,
        "distinct_nontrivial": nontrivial.len(), "by_op": by_op,
        "handle_provenance_used": HANDLE_NAMES.iter().zip(handle_used.iter()).map(|(n, c)| json!([n, c])).collect::<Vec<_>>(),
        "lock_points_seen": guard::LOCK_POINTS.load(std::sync::atomic::Ordering::Relaxed),
    })
}

pub fn record(opts: &HashMap<String, String>) -> Value {
    let fl = opts.get("flavour").expect("--flavour").clone();
    with_flavour!(fl.as_str(), record_fl(opts))
}

/// seeded random histories; one ndjson event per call with the full projected state
fn record_fl<F: Fl>(opts: &HashMap<String, String>) -> Value {
    let seed: u64 = opts.get("seed").map(|s| s.parse().unwrap()).unwrap_or(1);
    let traces: usize = opts.get("traces").map(|s| s.parse().unwrap()).unwrap_or(10);
    let calls: usize = opts.get("calls").map(|s| s.parse().unwrap()).unwrap_or(300);
    let n: usize = opts.get("nodes").map(|s| s.parse().unwrap()).unwrap_or(8);
    let nvals: i64 = opts.get("vals").map(|s| s.parse().unwrap()).unwrap_or(3);
    let max_edges: usize = opts.get("max-edges").map(|s| s.parse().unwrap()).unwrap_or(20);
    let pad: usize = opts.get("pad").map(|s| s.parse().unwrap()).unwrap_or(n);
    let path = opts.get("trace").expect("--trace");
    let mut f = std::io::BufWriter::new(std::fs::File::create(path).expect("create trace"));
    let mut rng = StdRng::seed_from_u64(seed ^ 0x9e3779b97f4a7c15u64.wrapping_mul(F::NAME.len() as u64 + 1));
    let mut events = 0usize;
    let mut failures = 0usize;
    let mut by_op: HashMap<&'static str, usize> = HashMap::new();
    for t in 0..traces {
        // vary the size: small worlds make self-loops / parallel edges dense
        let nn = if t % 3 == 0 { 3.min(n) } else { n };
        let w = World::<F>::new(nn, None);
        writeln!(f, "{}", json!({"ev": "reset", "n": nn})).unwrap();
        events += 1;
        let mut variant = rng.gen_range(0..HANDLE_VARIANTS);
        for _ in 0..calls {
            let st = match w.project_guarded() {
                Ok(s) => s,
                Err(_) => break,
            };
            let live = st.edges();
            let u = rng.gen_range(1..=nn as K);
            let pick_peer = |rng: &mut StdRng, st: &AState| -> K {
                // half of the time an existing neighbour (if any)
                let l: Vec<K> = st.out[(u - 1) as usize].iter().chain(st.inn[(u - 1) as usize].iter()).map(|x| x.0).collect();
                if !l.is_empty() && rng.gen_bool(0.6) {
                    l[rng.gen_range(0..l.len())]
                } else {
                    rng.gen_range(1..=nn as K)
                }
            };
            let r = rng.gen_range(0..100);
            let full = live >= max_edges;
            let op = if r < 35 && !full {
                let v = if rng.gen_bool(0.15) { u } else { rng.gen_range(1..=nn as K) };
                Op::Connect(u, v, rng.gen_range(1..=nvals))
            } else if r < 50 && !full {
                Op::TryConnect(u, pick_peer(&mut rng, &st), rng.gen_range(1..=nvals))
            } else if r < 92 {
                Op::Disconnect(u, pick_peer(&mut rng, &st))
            } else {
                Op::Isolate(u)
            };
            variant += 1;
            let (res, used) = w.apply(&op, variant);
            let name = match op {
                Op::Connect(..) => "connect",
                Op::TryConnect(..) => "try_connect",
                Op::Disconnect(..) => "disconnect",
                Op::Isolate(..) => "isolate",
            };
            *by_op.entry(name).or_insert(0) += 1;
            let post = w.project_guarded();
            let obs = guarded(|| w.obs());
            let failed = res.as_str().map(|s| s.starts_with("panic:") || s.starts_with("deadlock:")).unwrap_or(false);
            let mut ev = json!({"ev": "op", "op": op.to_json(), "via": HANDLE_NAMES[used], "res": res});
            match &post {
                Ok(s) => {
                    let mut o = s.out.clone();
                    let mut i = s.inn.clone();
                    o.resize(pad, vec![]);
                    i.resize(pad, vec![]);
                    ev["out"] = json!(o);
                    ev["inn"] = json!(i);
                }
                Err(e) => {
                    ev["state_error"] = json!(e);
                }
            }
            match &obs {
                Guarded::Ok(o) => ev["obs"] = json!(pad_obs::<F>(o, nn, pad)),
                o => ev["obs_error"] = json!(o.failure()),
            }
            writeln!(f, "{}", ev).unwrap();
            events += 1;
            if failed || post.is_err() {
                failures += 1;
                break; // the world may be broken after a panic: end this history here
            }
        }
    }
    f.flush().unwrap();
    json!({"flavour": F::NAME, "events": events, "traces": traces, "failures": failures, "by_op": by_op,
           "lock_points_seen": guard::LOCK_POINTS.load(std::sync::atomic::Ordering::Relaxed)})
}

/// observers of the nodes that do not exist in a small world, and `conn`-style
/// vectors extended to `pad` keys: an absent node is an orphan nobody links to
fn pad_obs<F: Fl>(o: &[Value], nn: usize, pad: usize) -> Vec<Value> {
    let mut v: Vec<Value> = o
        .iter()
        .map(|x| {
            let mut x = x.clone();
            for f in ["conn", "fo", "fi"] {
                if let Some(a) = x.get_mut(f).and_then(|a| a.as_array_mut()) {
                    a.resize(pad, json!(false));
                }
            }
            x
        })
        .collect();
    for _ in nn..pad {
        let f = vec![false; pad];
        v.push(if F::DIRECTED {
            json!({"od": 0, "id": 0, "root": true, "leaf": true, "orphan": true, "conn": f, "fo": f, "fi": f})
        } else {
            json!({"deg": 0, "orphan": true, "conn": f})
        });
    }
    v
}
