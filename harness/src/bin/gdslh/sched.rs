//! C17: deterministic scheduler on the lock-point hook.
//!
//! Scenario threads are real OS threads running real library calls on shared
//! sync nodes. Immediately before every RwLock acquisition the hook parks the
//! thread; the scheduler (this thread) waits until every live scenario thread
//! is parked or finished, probes the real locks to see who could proceed, and
//! grants exactly one. All grant sequences are explored depth-first by
//! re-execution (stateless model checking). A state in which unfinished
//! threads exist but none can proceed is a deadlock; the parked threads are
//! then unwound so that nothing is left blocked.

use gdslh::*;
use gdsl::verif_hook::{set_hook, Mode, Probe};
use serde_json::{json, Value};
use std::cell::Cell;
use std::collections::{BTreeMap, BTreeSet, HashMap};
use std::panic::{catch_unwind, AssertUnwindSafe};
use std::sync::{Arc, Condvar, Mutex};

thread_local! {
    static TID: Cell<usize> = const { Cell::new(usize::MAX) };
}

#[derive(Clone, Copy, PartialEq, Debug)]
enum TState {
    Running,
    Parked,
    Finished,
}

struct Req {
    lock: usize,
    mode: Mode,
    probe: *const (dyn Probe + 'static),
}
unsafe impl Send for Req {}

struct Shared {
    state: Vec<TState>,
    req: Vec<Option<Req>>,
    granted: Vec<bool>,
    abort: bool,
    lock_events: usize,
}

struct Sched {
    m: Mutex<Shared>,
    cv_threads: Condvar,
    cv_sched: Condvar,
}

const ABORT_MARK: &str = "VERIF-ABORT";

fn make_hook(s: Arc<Sched>) -> Arc<gdsl::verif_hook::Hook> {
    Arc::new(move |probe: &dyn Probe, mode: Mode| {
        let tid = TID.with(|t| t.get());
        if tid == usize::MAX {
            return; // not a scenario thread (the main thread building / reading the world)
        }
        let mut g = s.m.lock().unwrap_or_else(|e| e.into_inner());
        // the reference stays valid while this thread is parked inside the hook
        let p: *const (dyn Probe + '_) = probe;
        let p: *const (dyn Probe + 'static) = unsafe { std::mem::transmute(p) };
        g.req[tid] = Some(Req { lock: probe.id(), mode, probe: p });
        g.state[tid] = TState::Parked;
        g.lock_events += 1;
        s.cv_sched.notify_all();
        while !g.granted[tid] && !g.abort {
            g = s.cv_threads.wait(g).unwrap_or_else(|e| e.into_inner());
        }
        let aborted = g.abort && !g.granted[tid];
        g.granted[tid] = false;
        g.req[tid] = None;
        g.state[tid] = TState::Running;
        drop(g);
        if aborted {
            panic!("{}", ABORT_MARK);
        }
    })
}

/// one call of a scenario thread
fn do_call<F: Fl>(nodes: &[F::Node], c: &Value) -> Value {
    let a = c.as_array().unwrap();
    let n = |i: usize| a[i].as_i64().unwrap();
    let node = |i: usize| &nodes[(n(i) - 1) as usize];
    match a[0].as_str().unwrap() {
        "connect" => {
            F::connect(node(1), node(2), n(3));
            json!("ok")
        }
        "try_connect" => match F::try_connect(node(1), node(2), n(3)) {
            Ok(()) => json!("ok"),
            Err(e) => json!(e),
        },
        "disconnect" => match F::disconnect(node(1), n(2) as K) {
            Ok(e) => json!(e),
            Err(e) => json!(e),
        },
        "isolate" => {
            F::isolate(node(1));
            json!("ok")
        }
        "scan" => {
            let mut k = 0;
            F::edge_loop(node(1), false, &mut |_, _, _| k += 1);
            json!("scanned")
        }
        "degree" => {
            F::plain_queries(node(1), n(1) as K);
            json!("degree")
        }
        o => panic!("unknown call {}", o),
    }
}

struct ExecResult {
    outcome: Value,
    choices: Vec<usize>, // number of enabled options at each decision
    lock_events: usize,
    grants: Vec<usize>,
}

/// run the scenario once following `plan` (choice indices), defaulting to 0 beyond it
fn execute<F: Fl>(n_nodes: usize, init: &AState, progs: &[Vec<Value>], plan: &[usize], writer_pref: bool, pre_bound: usize) -> ExecResult
where
    F::Node: Send + Sync + 'static,
{
    execute_forced::<F>(n_nodes, init, progs, plan, writer_pref, pre_bound, None)
}

/// like `execute`; with `forced` = a sequence of thread ids, the scheduler grants exactly those
/// threads in that order (replay of a stored schedule) as long as they are enabled
fn execute_forced<F: Fl>(n_nodes: usize, init: &AState, progs: &[Vec<Value>], plan: &[usize], writer_pref: bool, pre_bound: usize,
                         forced: Option<&[usize]>) -> ExecResult
where
    F::Node: Send + Sync + 'static,
{
    let nt = progs.len();
    let world = World::<F>::build(init, None).expect("build initial graph");
    assert!(world.nodes.len() == n_nodes);
    let nodes: Arc<Vec<F::Node>> = Arc::new(world.nodes.clone());
    let sched = Arc::new(Sched {
        m: Mutex::new(Shared { state: vec![TState::Running; nt], req: (0..nt).map(|_| None).collect(), granted: vec![false; nt], abort: false, lock_events: 0 }),
        cv_threads: Condvar::new(),
        cv_sched: Condvar::new(),
    });
    set_hook(Some(make_hook(sched.clone())));
    let results: Arc<Mutex<Vec<Vec<Value>>>> = Arc::new(Mutex::new(vec![vec![]; nt]));
    let mut handles = vec![];
    for t in 0..nt {
        let nodes = nodes.clone();
        let prog = progs[t].clone();
        let sched = sched.clone();
        let results = results.clone();
        handles.push(std::thread::spawn(move || {
            TID.with(|x| x.set(t));
            guard::init();
            guard::expect_panics_on_this_thread();
            for c in &prog {
                let r = catch_unwind(AssertUnwindSafe(|| do_call::<F>(&nodes, c)));
                let (v, stop) = match r {
                    Ok(v) => (v, false),
                    Err(p) => {
                        let msg = p.downcast_ref::<String>().cloned().or_else(|| p.downcast_ref::<&str>().map(|s| s.to_string())).unwrap_or_default();
                        if msg.contains(ABORT_MARK) { (json!("blocked"), true) } else { (json!("panic"), true) }
                    }
                };
                results.lock().unwrap_or_else(|e| e.into_inner())[t].push(v);
                if stop {
                    break;
                }
            }
            TID.with(|x| x.set(usize::MAX));
            let mut g = sched.m.lock().unwrap_or_else(|e| e.into_inner());
            g.state[t] = TState::Finished;
            sched.cv_sched.notify_all();
        }));
    }
    // scheduler loop
    let mut choices = vec![];
    let mut grants = vec![];
    let mut deadlock = false;
    let mut step = 0usize;
    let mut last: Option<usize> = None;
    let mut preemptions = 0usize;
    loop {
        let mut g = sched.m.lock().unwrap_or_else(|e| e.into_inner());
        while g.state.iter().any(|s| *s == TState::Running) {
            let (g2, to) = sched.cv_sched.wait_timeout(g, std::time::Duration::from_secs(90)).unwrap_or_else(|e| e.into_inner());
            g = g2;
            if to.timed_out() && g.state.iter().any(|s| *s == TState::Running) {
                // a thread is blocked somewhere the hook does not see: report as a hang
                deadlock = true;
                break;
            }
        }
        if deadlock {
            g.abort = true;
            sched.cv_threads.notify_all();
            break;
        }
        let parked: Vec<usize> = (0..nt).filter(|&t| g.state[t] == TState::Parked).collect();
        if parked.is_empty() {
            break; // all finished
        }
        // waiting writers: parked threads that asked for a write lock that is not available
        let mut waiting_w: BTreeSet<usize> = BTreeSet::new();
        let mut can: BTreeMap<usize, bool> = BTreeMap::new();
        for &t in &parked {
            let r = g.req[t].as_ref().unwrap();
            let p = unsafe { &*r.probe };
            if r.mode == Mode::Write {
                let ok = p.try_write_ok();
                can.insert(t, ok);
                if !ok {
                    waiting_w.insert(r.lock);
                }
            }
        }
        for &t in &parked {
            let r = g.req[t].as_ref().unwrap();
            let p = unsafe { &*r.probe };
            if r.mode == Mode::Read {
                let ok = p.try_read_ok() && !(writer_pref && waiting_w.contains(&r.lock));
                can.insert(t, ok);
            }
        }
        let enabled: Vec<usize> = parked.iter().cloned().filter(|t| can[t]).collect();
        if enabled.is_empty() {
            deadlock = true;
            g.abort = true;
            sched.cv_threads.notify_all();
            break;
        }
        // preemption bounding: switching away from a thread that could continue costs one unit
        let options: Vec<usize> = match last {
            Some(lt) if enabled.contains(&lt) => {
                let mut o = vec![lt];
                if preemptions < pre_bound {
                    o.extend(enabled.iter().cloned().filter(|x| *x != lt));
                }
                o
            }
            _ => enabled.clone(),
        };
        let k = if step < plan.len() { plan[step].min(options.len() - 1) } else { 0 };
        choices.push(options.len());
        let mut t = options[k];
        if let Some(fs) = forced {
            if step < fs.len() && enabled.contains(&fs[step]) {
                t = fs[step];
            }
        }
        if let Some(lt) = last {
            if t != lt && enabled.contains(&lt) {
                preemptions += 1;
            }
        }
        last = Some(t);
        grants.push(t);
        g.granted[t] = true;
        g.state[t] = TState::Running;
        step += 1;
        sched.cv_threads.notify_all();
    }
    for h in handles {
        let _ = h.join();
    }
    let lock_events = sched.m.lock().unwrap_or_else(|e| e.into_inner()).lock_events;
    set_hook(None);
    let rets = results.lock().unwrap_or_else(|e| e.into_inner()).clone();
    // final state read on this thread (panics on a poisoned lock)
    let fin = match catch_unwind(AssertUnwindSafe(|| world.project())) {
        Ok(s) => json!({"out": s.out, "inn": s.inn}),
        Err(_) => json!("poisoned"),
    };
    ExecResult { outcome: json!({"rets": rets, "final": fin, "deadlock": deadlock}), choices, lock_events, grants }
}

pub fn explore(opts: &HashMap<String, String>) -> Value {
    let fl = opts.get("flavour").expect("--flavour").clone();
    match fl.as_str() {
        "sync_digraph" => explore_fl::<SyncDigraph>(opts),
        "sync_ungraph" => explore_fl::<SyncUngraph>(opts),
        o => panic!("the scheduler runs the sync flavours only, not {}", o),
    }
}

/// scenarios file: one JSON object per line {"g0": {"out","inn"}, "prog": [[call..]..]}
fn explore_fl<F: Fl>(opts: &HashMap<String, String>) -> Value
where
    F::Node: Send + Sync + 'static,
{
    let path = opts.get("scenarios").expect("--scenarios");
    let out_path = opts.get("outcomes").expect("--outcomes");
    let max_exec: usize = opts.get("max-executions").map(|s| s.parse().unwrap()).unwrap_or(5000);
    let writer_pref = opts.get("writer-preference").map(|s| s != "false").unwrap_or(true);
    let pre_bound: usize = opts.get("preemption-bound").map(|s| s.parse().unwrap()).unwrap_or(usize::MAX);
    let text = std::fs::read_to_string(path).expect("read scenarios");
    let mut of = std::io::BufWriter::new(std::fs::File::create(out_path).expect("create outcomes"));
    use std::io::Write;
    let (mut n_scen, mut n_exec, mut n_lock_events, mut truncated) = (0usize, 0usize, 0usize, 0usize);
    let mut max_sched = 0usize;
    for line in text.lines().filter(|l| !l.trim().is_empty()) {
        let sc: Value = serde_json::from_str(line).expect("scenario json");
        let init = AState { out: serde_json::from_value(sc["g0"]["out"].clone()).unwrap(), inn: serde_json::from_value(sc["g0"]["inn"].clone()).unwrap() };
        let progs: Vec<Vec<Value>> = sc["prog"].as_array().unwrap().iter().map(|p| p.as_array().unwrap().clone()).collect();
        n_scen += 1;
        let mut outcomes: BTreeMap<String, (Value, usize, Vec<usize>)> = BTreeMap::new();
        let mut plan: Vec<usize> = vec![];
        let mut execs = 0usize;
        loop {
            let r = execute::<F>(init.n(), &init, &progs, &plan, writer_pref, pre_bound);
            execs += 1;
            n_lock_events += r.lock_events;
            let key = r.outcome.to_string();
            let e = outcomes.entry(key).or_insert((r.outcome.clone(), 0, r.grants.clone()));
            e.1 += 1;
            // next plan: increment the last position that still has an untried option
            let mut full: Vec<usize> = (0..r.choices.len()).map(|i| if i < plan.len() { plan[i].min(r.choices[i] - 1) } else { 0 }).collect();
            let mut advanced = false;
            while let Some(last) = full.pop() {
                let i = full.len();
                if last + 1 < r.choices[i] {
                    full.push(last + 1);
                    advanced = true;
                    break;
                }
            }
            if !advanced {
                break;
            }
            plan = full;
            if execs >= max_exec {
                truncated += 1;
                break;
            }
        }
        n_exec += execs;
        max_sched = max_sched.max(execs);
        let outs: Vec<Value> = outcomes.values().map(|(o, c, g)| json!({"outcome": o, "schedules": c, "a_grant_sequence": g})).collect();
        writeln!(of, "{}", json!({"g0": sc["g0"], "prog": sc["prog"], "schedules_explored": execs, "outcomes": outs})).unwrap();
    }
    of.flush().unwrap();
    json!({"flavour": F::NAME, "scenarios": n_scen, "executions": n_exec, "lock_points": n_lock_events,
           "scenarios_truncated": truncated, "max_schedules_in_one_scenario": max_sched, "writer_preference": writer_pref,
           "preemption_bound": if pre_bound == usize::MAX { json!("none") } else { json!(pre_bound) }})
}

// ---------------------------------------------------------------------------
/// free-running stress (no scheduler): threads run random calls drawn from a mix whose
/// pairwise combinations are free of known findings (connect / scan / degree by default);
/// any panic, poisoned lock or hang, or a final graph that is not the bag of performed
/// connects, is a new failure. One event per round for TraceLocks ("stress").
pub fn stress(opts: &HashMap<String, String>) -> Value {
    let fl = opts.get("flavour").expect("--flavour").clone();
    match fl.as_str() {
        "sync_digraph" => stress_fl::<SyncDigraph>(opts),
        "sync_ungraph" => stress_fl::<SyncUngraph>(opts),
        o => panic!("stress runs the sync flavours only, not {}", o),
    }
}

fn stress_fl<F: Fl>(opts: &HashMap<String, String>) -> Value
where
    F::Node: Send + Sync + 'static,
{
    use rand::rngs::StdRng;
    use rand::{Rng, SeedableRng};
    use std::io::Write;
    let rounds: usize = opts.get("rounds").map(|s| s.parse().unwrap()).unwrap_or(20);
    let threads: usize = opts.get("threads").map(|s| s.parse().unwrap()).unwrap_or(4);
    let calls: usize = opts.get("calls").map(|s| s.parse().unwrap()).unwrap_or(300);
    let n: usize = opts.get("nodes").map(|s| s.parse().unwrap()).unwrap_or(3);
    let seed: u64 = opts.get("seed").map(|s| s.parse().unwrap()).unwrap_or(1);
    let path = opts.get("trace").expect("--trace");
    set_hook(None);
    let mut f = std::io::BufWriter::new(std::fs::File::create(path).expect("create trace"));
    let mut total_calls = 0usize;
    for r in 0..rounds {
        let world = World::<F>::new(n, None);
        let nodes: Arc<Vec<F::Node>> = Arc::new(world.nodes.clone());
        let (tx, rx) = std::sync::mpsc::channel::<(usize, Vec<(K, K)>, bool)>();
        let barrier = Arc::new(std::sync::Barrier::new(threads));
        for t in 0..threads {
            let nodes = nodes.clone();
            let tx = tx.clone();
            let barrier = barrier.clone();
            std::thread::spawn(move || {
                guard::init();
                guard::expect_panics_on_this_thread();
                let mut rng = StdRng::seed_from_u64(seed ^ ((r * 131 + t) as u64).wrapping_mul(0x9e3779b97f4a7c15));
                let mut connects = vec![];
                barrier.wait();
                // odd rounds are "churn" rounds: thread 0 is the ONLY mutator - it keeps creating a
                // short-lived leaf, connects it to a shared node, disconnects it again and drops its
                // last handle - while the other threads iterate / search the shared nodes in both
                // directions (a neighbour may die, properly disconnected, while a reader walks the list)
                let churn = r % 2 == 1;
                let ok = catch_unwind(AssertUnwindSafe(|| {
                    // churn rounds run longer: the window in which a neighbour dies under a reader is narrow
                    for i in 0..(if churn { calls * 40 } else { calls }) {
                        let u = rng.gen_range(1..=nodes.len());
                        let v = rng.gen_range(1..=nodes.len());
                        if churn {
                            if t == 0 {
                                let leaf = F::node(1000 + (i % 7) as K, 0);
                                F::connect(&leaf, &nodes[u - 1], 1);
                                if i % 3 == 0 {
                                    F::connect(&nodes[v - 1], &leaf, 1);
                                    let _ = F::disconnect(&nodes[v - 1], F::key(&leaf));
                                }
                                let _ = F::disconnect(&leaf, u as K);
                                drop(leaf);
                            } else {
                                let mut k = 0;
                                F::edge_loop(&nodes[u - 1], i % 2 == 0, &mut |_, _, _| k += 1);
                                let q = Query { kind: if i % 4 < 2 { Kind::Bfs } else { Kind::Dfs }, entry: Entry::Search, target: Some(v as K),
                                                transpose: F::DIRECTED && i % 2 == 0, meth: Meth::Plain, repeat: false, late: false };
                                let _ = F::search(&nodes[u - 1], &q, &mut |_, _, _| true);
                                F::plain_queries(&nodes[u - 1], v as K);
                            }
                            continue;
                        }
                        match rng.gen_range(0..4) {
                            0 | 1 => {
                                F::connect(&nodes[u - 1], &nodes[v - 1], 1);
                                connects.push((u as K, v as K));
                            }
                            2 => {
                                let mut k = 0;
                                F::edge_loop(&nodes[u - 1], false, &mut |_, _, _| k += 1);
                            }
                            _ => {
                                F::plain_queries(&nodes[u - 1], v as K);
                            }
                        }
                    }
                }))
                .is_ok();
                let _ = tx.send((t, connects, ok));
            });
        }
        drop(tx);
        let mut performed: Vec<(K, K)> = vec![];
        let mut finished = 0usize;
        let mut panicked = false;
        let deadline = std::time::Instant::now() + std::time::Duration::from_secs(90);
        while finished < threads {
            match rx.recv_timeout(deadline.saturating_duration_since(std::time::Instant::now())) {
                Ok((_, c, ok)) => {
                    finished += 1;
                    performed.extend(c);
                    panicked |= !ok;
                }
                Err(_) => break,
            }
        }
        total_calls += threads * calls;
        let hang = finished < threads;
        let fin = if hang { json!("unreadable") } else {
            match catch_unwind(AssertUnwindSafe(|| world.project())) {
                Ok(s) => json!({"out": s.out, "inn": s.inn}),
                Err(_) => json!("poisoned"),
            }
        };
        performed.sort();
        let readable = fin.is_object();
        writeln!(f, "{}", json!({"ev": "stress", "churn": r % 2 == 1, "threads": threads, "calls_per_thread": calls, "hang": hang, "panic": panicked,
            "poisoned": fin == json!("poisoned"), "readable": readable,
            "final": if readable { fin } else { json!({"out": vec![Vec::<i64>::new(); n], "inn": vec![Vec::<i64>::new(); n]}) },
            "connects": performed})).unwrap();
        if hang {
            break; // threads are stuck: do not start another round on top of them
        }
    }
    f.flush().unwrap();
    json!({"flavour": F::NAME, "rounds": rounds, "threads": threads, "calls": total_calls})
}

/// `--replay` of a stored C17 case: run its grant sequence again on the current tree
pub fn replay_case(opts: &HashMap<String, String>) -> Value {
    let file = opts.get("case").expect("--case");
    let v: Value = serde_json::from_str(&std::fs::read_to_string(file).expect("read case")).expect("case json");
    let c = &v["case"];
    match c["flavour"].as_str().unwrap_or("") {
        "sync_digraph" => replay_case_fl::<SyncDigraph>(c),
        "sync_ungraph" => replay_case_fl::<SyncUngraph>(c),
        o => json!({"error": format!("not a scheduler case (flavour {})", o)}),
    }
}

fn replay_case_fl<F: Fl>(c: &Value) -> Value
where
    F::Node: Send + Sync + 'static,
{
    let init = AState { out: serde_json::from_value(c["g0"]["out"].clone()).unwrap(), inn: serde_json::from_value(c["g0"]["inn"].clone()).unwrap() };
    let progs: Vec<Vec<Value>> = c["prog"].as_array().unwrap().iter().map(|p| p.as_array().unwrap().clone()).collect();
    let grants: Vec<usize> = serde_json::from_value(c["grant_sequence"].clone()).unwrap_or_default();
    let r = execute_forced::<F>(init.n(), &init, &progs, &[], true, usize::MAX, Some(&grants));
    json!({"kind": "schedule", "flavour": F::NAME, "g0": c["g0"], "prog": c["prog"], "requested_grants": grants, "grants": r.grants, "outcome": r.outcome})
}
