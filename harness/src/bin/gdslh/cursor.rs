//! C20: scripts of operations executed from inside edge loops and traversal closures.

use gdslh::*;
use serde_json::{json, Value};
use std::cell::RefCell;
use std::collections::{HashMap, HashSet};
use std::io::Write;

fn lists(v: &Value) -> Lists {
    serde_json::from_value(v.clone()).expect("lists")
}

pub const YIELD_CAP: usize = 2000;

struct Run {
    yields: Vec<Triple>,
    op_results: Vec<Value>,
    events: Vec<Value>,
    outcome: String, // "ok" | "panic:.." | "deadlock:.." | "hang"
    fin: Result<AState, String>,
    search_result: Value,
}

/// the side effects of a "query" script entry: observers, a nested search, container calls
fn do_query<F: Fl>(w: &World<F>, u: K) -> Value {
    let r = guarded(|| {
        let _ = F::obs(w.node(u), &w.keys);
        let _ = w.project();
        let q = Query { kind: Kind::Bfs, entry: Entry::SearchPath, target: None, transpose: false, meth: Meth::ForEach, repeat: false, late: false };
        let mut n = 0usize;
        let mut cb = |_: K, _: K, _: EV| {
            n += 1;
            true
        };
        let _ = F::search(w.node(u), &q, &mut cb);
        let q2 = Query { kind: Kind::Dfs, entry: Entry::SearchCycle, target: None, transpose: F::DIRECTED, meth: Meth::Plain, repeat: false, late: false };
        let mut cb2 = |_: K, _: K, _: EV| true;
        let _ = F::search(w.node(u), &q2, &mut cb2);
        let _ = F::g_get(&w.graph, u).map(|h| F::key(&h));
        let _ = F::g_contains(&w.graph, u);
        let _ = F::g_index(&w.graph, u);
        let mut g2 = F::g_new();
        F::g_insert(&mut g2, w.node(u).clone());
        F::g_remove(&mut g2, u);
        let _ = F::g_to_vec(&w.graph).len();
        let _ = F::g_to_dot(&w.graph);
    });
    match r {
        Guarded::Ok(()) => json!("ok"),
        o => json!(o.failure()),
    }
}

fn run_case<F: Fl>(case: &Value, meth: Meth, trace: bool) -> Run {
    let st = AState { out: lists(&case["out"]), inn: lists(&case["inn"]) };
    let lp = &case["loop"];
    let kind = lp["kind"].as_str().unwrap().to_string();
    let root = lp["root"].as_u64().unwrap() as K;
    let dir_in = lp["dir"].as_str().unwrap() == "in";
    let cyc = lp["cyc"].as_bool().unwrap();
    let script: Vec<(usize, Value)> = case["script"].as_array().unwrap().iter().map(|x| (x[0].as_u64().unwrap() as usize, x[1].clone())).collect();
    let w = World::<F>::build(&st, None).expect("build");
    let yields = RefCell::new(Vec::<Triple>::new());
    let op_results = RefCell::new(Vec::<Value>::new());
    let events = RefCell::new(Vec::<Value>::new());
    let hang = RefCell::new(false);
    let mut variant = 0usize;
    let mut body = |u: K, v: K, e: EV| -> bool {
        let k = {
            let mut y = yields.borrow_mut();
            y.push((u, v, e));
            y.len()
        };
        if k > YIELD_CAP {
            *hang.borrow_mut() = true;
            panic!("{}: more than {} yields", HANG_MARK, YIELD_CAP);
        }
        if trace {
            match w.project_guarded() {
                Ok(s) => events.borrow_mut().push(json!({"ev": "yield", "edge": [u, v, e], "out": s.out, "inn": s.inn})),
                Err(er) => events.borrow_mut().push(json!({"ev": "yield", "edge": [u, v, e], "state_error": er})),
            }
        }
        for (at, op) in &script {
            if *at == k {
                variant += 1;
                let res = if op[0] == json!("query") {
                    do_query::<F>(&w, op[1].as_u64().unwrap() as K)
                } else {
                    w.apply(&Op::from_json(op), variant).0
                };
                if trace {
                    match w.project_guarded() {
                        Ok(s) => events.borrow_mut().push(json!({"ev": "mut", "op": op, "rt": if failed(&res) { "fail" } else { "ok" },
                            "res": if failed(&res) { json!("failed") } else { res.clone() }, "detail": res.to_string(), "out": s.out, "inn": s.inn})),
                        Err(er) => events.borrow_mut().push(json!({"ev": "mut", "op": op, "rt": "fail", "res": "failed", "detail": res.to_string(), "state_error": er})),
                    }
                }
                op_results.borrow_mut().push(res);
            }
        }
        true
    };
    let mut search_result = json!(null);
    let r = if kind == "iter" {
        guarded(|| {
            let mut b2 = |u: K, v: K, e: EV| {
                body(u, v, e);
            };
            F::edge_loop(w.node(root), dir_in, &mut b2)
        })
    } else {
        let k = Kind::parse(&kind);
        let entry = if cyc { Entry::SearchCycle } else if k.is_order() { Entry::SearchNodes } else { Entry::SearchPath };
        let q = Query { kind: k, entry, target: None, transpose: dir_in, meth, repeat: false, late: false };
        let rr = guarded(|| F::search(w.node(root), &q, &mut body));
        match rr {
            Guarded::Ok(Ok(s)) => {
                search_result = s.to_json();
                Guarded::Ok(())
            }
            Guarded::Ok(Err(e)) => Guarded::Panic(format!("unsupported: {}", e)),
            Guarded::Panic(m) => Guarded::Panic(m),
            Guarded::Deadlock(m) => Guarded::Deadlock(m),
        }
    };
    let outcome = if *hang.borrow() { "hang".to_string() } else { r.failure().unwrap_or_else(|| "ok".to_string()) };
    let fin = w.project_guarded();
    Run { yields: yields.into_inner(), op_results: op_results.into_inner(), events: events.into_inner(), outcome, fin, search_result }
}

fn failed(v: &Value) -> bool {
    v.as_str().map(|s| s.starts_with("panic:") || s.starts_with("deadlock:")).unwrap_or(false)
}

pub fn replay(opts: &HashMap<String, String>) -> Value {
    let fl = opts.get("flavour").expect("--flavour").clone();
    with_flavour!(fl.as_str(), replay_fl(opts))
}

fn replay_fl<F: Fl>(opts: &HashMap<String, String>) -> Value {
    let cases = opts.get("cases").expect("--cases");
    let max_viol: usize = opts.get("max-violations").map(|s| s.parse().unwrap()).unwrap_or(3000);
    let bucket_cap: usize = opts.get("bucket-cap").map(|s| s.parse().unwrap()).unwrap_or(8);
    let mut per_bucket: HashMap<String, usize> = HashMap::new();
    let trace_path = opts.get("trace").expect("--trace (adjudication trace of the disagreeing runs)");
    let mut tf = std::io::BufWriter::new(std::fs::File::create(trace_path).expect("create trace"));
    let (mut n_cases, mut n_exec, mut agree, mut n_mismatch) = (0usize, 0usize, 0usize, 0usize);
    let mut mismatches = vec![];
    let mut samples = vec![];
    let mut nontrivial: HashSet<u64> = HashSet::new();
    let mut by_kind: HashMap<String, usize> = HashMap::new();
    let mut mutating_mid_loop = 0usize;
    use std::hash::{Hash, Hasher};
    tlcio::for_each_case(cases, |case| {
        n_cases += 1;
        let kind = case["loop"]["kind"].as_str().unwrap();
        *by_kind.entry(kind.to_string()).or_insert(0) += 1;
        let exp_yields: Vec<Triple> = serde_json::from_value(case["yields"].clone()).unwrap();
        let exp_final = AState { out: lists(&case["final"]["out"]), inn: lists(&case["final"]["inn"]) };
        let ran = case["ran"].as_u64().unwrap() as usize;
        let meths: Vec<Meth> = if kind == "iter" { vec![Meth::ForEach] } else { vec![Meth::ForEach, Meth::Filter] };
        for m in meths {
            n_exec += 1;
            let r = run_case::<F>(&case, m, false);
            if ran > 0 {
                let mut h = std::collections::hash_map::DefaultHasher::new();
                case.to_string().hash(&mut h);
                (m == Meth::Filter).hash(&mut h);
                nontrivial.insert(h.finish());
                if ran < exp_yields.len() + 1 { mutating_mid_loop += 1; }
            }
            let ok = r.outcome == "ok" && r.yields == exp_yields && r.fin.as_ref().ok() == Some(&exp_final)
                && r.op_results.len() == ran && !r.op_results.iter().any(failed);
            if ok {
                agree += 1;
                if samples.len() < 6 && ran > 0 && exp_yields.len() >= 3 && n_exec % 1999 == 0 {
                    samples.push(json!({"flavour": F::NAME, "graph": {"out": case["out"], "inn": case["inn"]}, "loop": case["loop"],
                        "script": case["script"], "yields": r.yields, "final": r.fin.as_ref().ok()}));
                }
            } else {
                n_mismatch += 1;
                // keep disagreements per class so that a frequent harmless class cannot crowd out a rare one
                let opn = case["script"].as_array().and_then(|a| a.first()).map(|x| x[1][0].as_str().unwrap_or("?").to_string()).unwrap_or_default();
                let shape = if r.outcome != "ok" { "failed" } else if r.yields.len() > exp_yields.len() { "more-yields" }
                    else if r.yields.len() < exp_yields.len() { "fewer-yields" } else if r.yields != exp_yields { "other-yields" } else { "state-or-results" };
                let bucket = format!("{}|{}|{}|{}|{}|{}", kind, case["loop"]["dir"], case["loop"]["cyc"], m == Meth::Filter, opn, shape);
                let cnt = per_bucket.entry(bucket).or_insert(0);
                *cnt += 1;
                if *cnt <= bucket_cap && mismatches.len() < max_viol {
                    // re-run with per-step logging for TLC
                    let t = run_case::<F>(&case, m, true);
                    let first_line = 0; // filled by the orchestrator from event counts
                    let _ = first_line;
                    let mut evs = vec![json!({"ev": "cstart", "out": case["out"], "inn": case["inn"], "dir": case["loop"]["dir"]})];
                    evs.extend(t.events.iter().cloned());
                    evs.push(json!({"ev": "cend", "rt": if t.outcome == "ok" { "ok" } else if t.outcome == "hang" { "hang" } else { "fail" },
                                    "detail": t.outcome, "yields": t.yields.len()}));
                    for e in &evs {
                        writeln!(tf, "{}", e).unwrap();
                    }
                    mismatches.push(json!({"flavour": F::NAME, "graph": {"out": case["out"], "inn": case["inn"]}, "loop": case["loop"],
                        "closure": if m == Meth::Filter { "filter" } else { "for_each" }, "script": case["script"],
                        "observed": {"outcome": r.outcome, "yields": r.yields, "op_results": r.op_results, "final": r.fin.as_ref().ok(),
                                     "final_error": r.fin.as_ref().err(), "result": r.search_result},
                        "expected": {"yields": exp_yields, "final": exp_final}, "trace_events": evs.len()}));
                }
            }
        }
    })
    .expect("read cases");
    tf.flush().unwrap();
    json!({"flavour": F::NAME, "cases": n_cases, "executions": n_exec, "agree": agree, "n_mismatch": n_mismatch, "mismatches": mismatches,
           "mismatch_classes": per_bucket, "samples": samples, "distinct_nontrivial": nontrivial.len(), "by_loop_kind": by_kind, "scripts_running_mid_loop": mutating_mid_loop,
           "lock_points_seen": guard::LOCK_POINTS.load(std::sync::atomic::Ordering::Relaxed)})
}

pub fn record(opts: &HashMap<String, String>) -> Value {
    let fl = opts.get("flavour").expect("--flavour").clone();
    with_flavour!(fl.as_str(), record_fl(opts))
}

/// seeded random graphs, loops and longer scripts; every run is logged step by step
fn record_fl<F: Fl>(opts: &HashMap<String, String>) -> Value {
    use rand::rngs::StdRng;
    use rand::{Rng, SeedableRng};
    let seed: u64 = opts.get("seed").map(|s| s.parse().unwrap()).unwrap_or(1);
    let runs: usize = opts.get("runs").map(|s| s.parse().unwrap()).unwrap_or(100);
    let n: usize = opts.get("nodes").map(|s| s.parse().unwrap()).unwrap_or(6);
    let path = opts.get("trace").expect("--trace");
    let mut f = std::io::BufWriter::new(std::fs::File::create(path).expect("create trace"));
    let mut rng = StdRng::seed_from_u64(seed ^ 0xc20);
    let mut events = 0usize;
    let mut yields = 0usize;
    let mut muts = 0usize;
    let kinds = ["iter", "iter", "bfs", "dfs", "pfsmin", "pfsmax", "pre", "post"];
    for _ in 0..runs {
        let mut st = AState::empty(n);
        for _ in 0..rng.gen_range(2..=2 * n) {
            let u = rng.gen_range(1..=n as K);
            let v = if rng.gen_bool(0.15) { u } else { rng.gen_range(1..=n as K) };
            let e = rng.gen_range(1..=3);
            st.out[(u - 1) as usize].push((v, e));
            st.inn[(v - 1) as usize].push((u, e));
        }
        let kind = kinds[rng.gen_range(0..kinds.len())];
        let root = rng.gen_range(1..=n);
        let dir = if F::DIRECTED && rng.gen_bool(0.4) { "in" } else { "out" };
        let cyc = ["bfs", "dfs", "pfsmin", "pfsmax"].contains(&kind) && rng.gen_bool(0.3);
        let mut script = vec![];
        let mut at = 0usize;
        for _ in 0..rng.gen_range(1..=6) {
            at += rng.gen_range(1..=3);
            let u = rng.gen_range(1..=n);
            let v = if rng.gen_bool(0.3) { root } else { rng.gen_range(1..=n) };
            let op = match rng.gen_range(0..10) {
                0..=2 => json!(["connect", u, v, rng.gen_range(1..=3)]),
                3 => json!(["try_connect", u, v, rng.gen_range(1..=3)]),
                4..=6 => json!(["disconnect", if rng.gen_bool(0.5) { root } else { u }, v]),
                7 => json!(["isolate", if rng.gen_bool(0.5) { root } else { u }]),
                _ => json!(["query", u]),
            };
            script.push(json!([at, op]));
        }
        let case = json!({"out": st.out, "inn": st.inn, "loop": {"kind": kind, "root": root, "dir": dir, "cyc": cyc}, "script": script});
        let t = run_case::<F>(&case, if rng.gen_bool(0.5) { Meth::ForEach } else { Meth::Filter }, true);
        writeln!(f, "{}", json!({"ev": "cstart", "out": st.out, "inn": st.inn, "dir": dir, "loop": case["loop"], "script": script})).unwrap();
        for e in &t.events {
            if e["ev"] == json!("yield") { yields += 1 } else { muts += 1 }
            writeln!(f, "{}", e).unwrap();
        }
        writeln!(f, "{}", json!({"ev": "cend", "rt": if t.outcome == "ok" { "ok" } else if t.outcome == "hang" { "hang" } else { "fail" },
                                 "detail": t.outcome, "yields": t.yields.len()})).unwrap();
        events += t.events.len() + 2;
    }
    f.flush().unwrap();
    json!({"flavour": F::NAME, "events": events, "runs": runs, "yields": yields, "script_operations_run": muts,
           "lock_points_seen": guard::LOCK_POINTS.load(std::sync::atomic::Ordering::Relaxed)})
}
