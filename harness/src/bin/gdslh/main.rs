use gdslh::*;
use serde_json::{json, Value};
use std::collections::HashMap;

mod adj;
mod container;
mod cursor;
mod paired;
mod sched;
mod search;
mod serde_io;

fn main() {
    guard::init();
    let args: Vec<String> = std::env::args().collect();
    if args.len() < 2 {
        eprintln!("usage: gdslh <command> [--key value ...]");
        std::process::exit(2);
    }
    let mut opts: HashMap<String, String> = HashMap::new();
    let mut i = 2;
    while i < args.len() {
        if let Some(k) = args[i].strip_prefix("--") {
            let v = args.get(i + 1).cloned().unwrap_or_default();
            opts.insert(k.to_string(), v);
            i += 2;
        } else {
            i += 1;
        }
    }
    if args[1] != "sched" && args[1] != "stress" && args[1] != "sched-replay" {
        guard::install_single_thread_lock_hook();
    }
    let out: Value = match args[1].as_str() {
        "sched" => sched::explore(&opts),
        "stress" => sched::stress(&opts),
        "sched-replay" => sched::replay_case(&opts),
        "replay-adj" => adj::replay(&opts),
        "record-adj" => adj::record(&opts),
        "replay-search" => search::replay(&opts),
        "one-case" => search::one_case(&opts),
        "record-search" => search::record(&opts),
        "compare-table" => search::compare_table(&opts),
        "replay-scc" => search::replay_scc(&opts),
        "record-serde" => serde_io::record_serde(&opts),
        "replay-container" => container::replay(&opts),
        "record-paired" => paired::record(&opts),
        "replay-cursor" => cursor::replay(&opts),
        "record-cursor" => cursor::record(&opts),
        "record-own" => gdslh::own::record(opts.get("flavour").expect("--flavour"), opts.get("nodes").map(|s| s.parse().unwrap()).unwrap_or(6),
            opts.get("histories").map(|s| s.parse().unwrap()).unwrap_or(50), opts.get("steps").map(|s| s.parse().unwrap()).unwrap_or(60),
            opts.get("seed").map(|s| s.parse().unwrap()).unwrap_or(1), opts.get("trace").expect("--trace")),
        "replay-own" => gdslh::own::replay(opts.get("flavour").expect("--flavour"), opts.get("cases").expect("--cases"), 300),
        "record-container" => container::record(&opts),
        "replay-untrusted" => serde_io::replay_untrusted(&opts),
        "record-untrusted" => serde_io::record_untrusted(&opts),
        "record-scc" => search::record_scc(&opts),
        other => {
            eprintln!("unknown command {}", other);
            std::process::exit(2);
        }
    };
    let text = serde_json::to_string(&out).unwrap();
    match opts.get("result") {
        Some(p) => std::fs::write(p, text).expect("write result"),
        None => println!("{}", text),
    }
    let _ = json!(null);
}
