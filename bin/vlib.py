"""Shared machinery of /verif/bin/check: running TLC, building and running the
Rust harness, trace validation, findings, evidence.  No oracle logic lives here:
every verdict comes from TLC (an invariant of a design model, a case TLC
emitted, or a verdict TLC printed for a recorded event)."""
import fcntl
import hashlib
import json
import os
import re
import shutil
import subprocess
import sys
import time

VERIF = os.path.dirname(os.path.dirname(os.path.abspath(__file__)))
SPEC = os.path.join(VERIF, "spec")
HARNESS = os.path.join(VERIF, "harness")
WORK = os.path.join(VERIF, "work")
REPLAYS = os.path.join(VERIF, "replays")
EVIDENCE = os.path.join(VERIF, "evidence")
GDSLH = os.path.join(HARNESS, "target", "release", "gdslh")
FLAVOURS = ["digraph", "sync_digraph", "ungraph", "sync_ungraph"]
DIRECTED = {"digraph": True, "sync_digraph": True, "ungraph": False, "sync_ungraph": False}
NCPU = os.cpu_count() or 4


class ToolError(Exception):
    """the checker itself failed (TLC crash, build failure, timeout): exit 2"""


def log(*a):
    print("[check]", *a, file=sys.stderr, flush=True)


def ensure_dirs():
    for d in (WORK, REPLAYS, EVIDENCE):
        os.makedirs(d, exist_ok=True)


def run_dir(tag):
    d = os.path.join(WORK, "%s_%d" % (tag, os.getpid()))
    shutil.rmtree(d, ignore_errors=True)
    os.makedirs(d)
    return d


# --------------------------------------------------------------------------
# harness
def build_harness():
    """(re)build the harness against /repo's current working tree, hooks on"""
    ensure_dirs()
    lock = open(os.path.join(WORK, "build.lock"), "w")
    fcntl.flock(lock, fcntl.LOCK_EX)
    try:
        t = time.time()
        env = dict(os.environ, CARGO_NET_OFFLINE="true")
        p = subprocess.run(["cargo", "build", "--release", "--offline"], cwd=HARNESS, env=env,
                           stdout=subprocess.PIPE, stderr=subprocess.STDOUT, text=True)
        if p.returncode != 0:
            tail = "\n".join(l for l in p.stdout.splitlines() if not l.startswith("warning"))[-4000:]
            raise ToolError("harness build failed (does /repo still compile with --cfg gdsl_verif?):\n" + tail)
        log("harness built in %.1fs" % (time.time() - t))
    finally:
        fcntl.flock(lock, fcntl.LOCK_UN)
        lock.close()


def harness(cmd, opts, timeout=1800, result_file=None):
    """run one harness command; returns its JSON result"""
    args = [GDSLH, cmd]
    for k, v in opts.items():
        args += ["--" + k, str(v)]
    if result_file:
        args += ["--result", result_file]
    try:
        p = subprocess.run(args, stdout=subprocess.PIPE, stderr=subprocess.PIPE, text=True, timeout=timeout)
    except subprocess.TimeoutExpired:
        raise ToolError("harness %s timed out after %ds" % (cmd, timeout))
    if p.returncode != 0:
        raise ToolError("harness %s failed rc=%d: %s" % (cmd, p.returncode, p.stderr[-3000:]))
    if result_file:
        return json.load(open(result_file))
    return json.loads(p.stdout)


def harness_parallel(jobs, timeout=1800):
    """jobs: list of (cmd, opts, result_file); run concurrently; returns list of JSON results"""
    procs = []
    for cmd, opts, rf in jobs:
        args = [GDSLH, cmd]
        for k, v in opts.items():
            args += ["--" + k, str(v)]
        args += ["--result", rf]
        errf = open(rf + ".stderr", "w")
        procs.append((subprocess.Popen(args, stdout=subprocess.DEVNULL, stderr=errf, text=True), cmd, rf))
    out = []
    deadline = time.time() + timeout
    for p, cmd, rf in procs:
        try:
            p.wait(timeout=max(1, deadline - time.time()))
        except subprocess.TimeoutExpired:
            for q, _, _ in procs:
                q.kill()
            raise ToolError("harness %s timed out" % cmd)
        if p.returncode != 0:
            se = open(rf + ".stderr", errors="replace").read()
            raise ToolError("harness %s failed rc=%d: %s" % (cmd, p.returncode, se[-3000:]))
        out.append(json.load(open(rf)))
    return out


# --------------------------------------------------------------------------
# TLC
TLC_JAR = "/opt/veriftools/tla/tla2tools.jar"


def cfg_text(constants, spec="Spec", invariants=(), properties=(), constraints=(), action_constraints=(),
             view=None, postcondition=None, symmetry=None, init=None, next_=None):
    lines = ["CONSTANTS"]
    for k, v in constants.items():
        lines.append("  %s = %s" % (k, tla_value(v)))
    if init:
        lines += ["INIT " + init, "NEXT " + next_]
    else:
        lines.append("SPECIFICATION " + spec)
    for c in constraints:
        lines.append("CONSTRAINT " + c)
    for c in action_constraints:
        lines.append("ACTION_CONSTRAINT " + c)
    if invariants:
        lines.append("INVARIANTS " + " ".join(invariants))
    for p in properties:
        lines.append("PROPERTY " + p)
    if view:
        lines.append("VIEW " + view)
    if symmetry:
        lines.append("SYMMETRY " + symmetry)
    if postcondition:
        lines.append("POSTCONDITION " + postcondition)
    lines.append("CHECK_DEADLOCK FALSE")
    return "\n".join(lines) + "\n"


def tla_value(v):
    if isinstance(v, bool):
        return "TRUE" if v else "FALSE"
    if isinstance(v, int):
        return str(v)
    if isinstance(v, (set, frozenset, list, tuple)):
        return "{" + ", ".join(tla_value(x) for x in (sorted(v) if isinstance(v, (set, frozenset)) else v)) + "}"
    if isinstance(v, str):
        return v  # raw TLA+ text (model value, or quoted string supplied by caller)
    raise ValueError(v)


class TlcResult:
    def __init__(self):
        self.generated = 0
        self.distinct = 0
        self.depth = 0
        self.wall = 0.0
        self.ok = False
        self.violation = None
        self.out_file = None
        self.prints = []
        self.coverage = {}
        self.cmd = ""


def run_tlc(module, cfg_body, tag, workers=8, timeout=1800, env=None, collect_prints=True,
            coverage=False, heap=None, simulate=None, deque=False, out_name="tlc.out", extra=()):
    """Run TLC on spec/<module>.tla with the given cfg text. stdout goes to a file
    (JSON case lines can be huge). Raises ToolError on crash/timeout; a violated
    invariant/property of a *design* model is reported in .violation."""
    ensure_dirs()
    d = os.path.join(WORK, tag)
    os.makedirs(d, exist_ok=True)
    cfg = os.path.join(d, module + ".cfg")
    with open(cfg, "w") as f:
        f.write(cfg_body)
    out_file = os.path.join(d, out_name)
    meta = os.path.join(d, "meta")
    shutil.rmtree(meta, ignore_errors=True)
    jopts = ["-Xss1g"]
    if deque:
        jopts.append("-Dtlc2.tool.queue.IStateQueue=StateDeque")
    e = dict(os.environ)
    e["JAVA_TOOL_OPTIONS"] = " ".join(jopts)
    if env:
        e.update(env)
    cmd = ["java"]
    if heap:
        cmd.append("-Xmx" + heap)
    cmd += ["-XX:+UseParallelGC", "-cp", "%s:%s" % (TLC_JAR, "/opt/veriftools/tla/CommunityModules-deps.jar"),
            "tlc2.TLC", "-workers", str(workers), "-metadir", meta, "-cleanup", "-noGenerateSpecTE", "-checkpoint", "0",
            "-config", cfg]
    if coverage:
        cmd += ["-coverage", "1"]
    if simulate:
        cmd += ["-simulate", simulate]
    cmd += list(extra)
    cmd.append(os.path.join(SPEC, module + ".tla"))
    r = TlcResult()
    r.cmd = " ".join(cmd)
    r.out_file = out_file
    t = time.time()
    with open(out_file, "w") as fo:
        try:
            p = subprocess.run(cmd, cwd=SPEC, env=e, stdout=fo, stderr=subprocess.STDOUT, timeout=timeout)
        except subprocess.TimeoutExpired:
            raise ToolError("TLC timed out after %ds on %s (%s)" % (timeout, module, tag))
    r.wall = time.time() - t
    shutil.rmtree(meta, ignore_errors=True)
    errors = []
    pending = None
    with open(out_file, errors="replace") as f:
        for line in f:
            if line.startswith('"{') or line.startswith('"['):
                continue
            line = line.rstrip("\n")
            m = re.match(r"^(\d+) states generated, (\d+) distinct states found", line)
            if m:
                r.generated, r.distinct = int(m.group(1)), int(m.group(2))
            m = re.match(r"^The depth of the complete state graph search is (\d+)", line)
            if m:
                r.depth = int(m.group(1))
            if collect_prints and (line.startswith("<<") or pending is not None):
                # TLC pretty-prints long tuples over several lines: reassemble until << >> balance
                pending = line if pending is None else pending + " " + line.strip()
                if pending.count("<<") <= pending.count(">>"):
                    r.prints.append(re.sub(r"<<\s+", "<<", re.sub(r"\s+>>", ">>", re.sub(r"\s+", " ", pending))))
                    pending = None
                continue
            if line.startswith("Error:") or "is violated" in line or "Invariant " in line and "violated" in line:
                errors.append(line)
            if "Model checking completed. No error has been found." in line:
                r.ok = True
            if simulate and ("Simulation" in line or "simulation" in line):
                pass
            m = re.match(r"^<(\w+) line \d+, col \d+ to line \d+, col \d+ of module (\w+)(?: \([^)]*\))?>: (\d+):(\d+)", line)
            if m:
                a = r.coverage.get(m.group(1), (0, 0))
                r.coverage[m.group(1)] = (a[0] + int(m.group(3)), a[1] + int(m.group(4)))
    if errors:
        r.violation = "; ".join(errors[:5])
    if p.returncode not in (0,) and not errors and not r.ok:
        tail = subprocess.run(["tail", "-30", out_file], stdout=subprocess.PIPE, text=True).stdout
        raise ToolError("TLC failed rc=%d on %s (%s):\n%s" % (p.returncode, module, tag, tail))
    return r


def action_coverage(module, cfg_body, tag, ignore=()):
    """run the design model once more at small constants with `-coverage 1`; every action of the
    next-state relation must have been taken, otherwise the check would be vacuous (tool error)"""
    r = run_tlc(module, cfg_body, tag, workers=4, timeout=1800, collect_prints=False, coverage=True, out_name="coverage.out")
    if r.violation or not r.ok:
        raise ToolError("coverage run of %s failed: %s (%s)" % (module, r.violation, r.out_file))
    acts = {k: list(v) for k, v in r.coverage.items() if k not in ignore}
    never = sorted(k for k, v in acts.items() if v[1] == 0)
    if never or not acts:
        raise ToolError("vacuous model run of %s: action(s) never taken: %s" % (module, never))
    return acts


def tlc_json_lines(path):
    """yield parsed JSON objects of the case lines TLC printed"""
    with open(path, errors="replace") as f:
        for line in f:
            if line.startswith('"{') or line.startswith('"['):
                s = line.rstrip("\n")[1:-1].replace('\\"', '"').replace("\\\\", "\\")
                yield json.loads(s)


def parse_tla_tuple_prints(prints, head):
    """lines like <<"REJECT", 12, <<"a", "b">>>>  ->  list of (int, [str...])"""
    out = []
    consumed = None
    for l in prints:
        m = re.match(r'^<<"%s", (\d+), <<(.*)>>>>$' % head, l)
        if m:
            out.append((int(m.group(1)), re.findall(r'"([^"]*)"', m.group(2))))
        m = re.match(r'^<<"CONSUMED", (\d+), "rejected", (\d+)>>$', l)
        if m:
            consumed = int(m.group(2))
    if head == "REJECT" and consumed is not None and consumed != len(out):
        raise ToolError("TLC rejected %d events but %d verdict lines were parsed" % (consumed, len(out)))
    return out


# --------------------------------------------------------------------------
# findings / violations / evidence
def load_known():
    p = os.path.join(VERIF, "known_findings.json")
    if not os.path.exists(p):
        return {"findings": [], "fixed": []}
    return json.load(open(p))


class Reporter:
    """collects violations of one property, matches them against known findings,
    writes replay files and the evidence file, decides the exit code"""

    def __init__(self, pid, tier, seed):
        self.pid = pid
        self.tier = tier
        self.seed = seed
        self.t0 = time.time()
        self.violations = []   # (signature, description, replay_obj)
        self.known_hits = {}
        self.known = [k for k in load_known().get("findings", []) if k["property"] == pid]
        if os.environ.get("VERIF_IGNORE_KNOWN") == "1":   # development aid: show known findings as violations (to regenerate examples)
            self.known = []
        self.cov = {"samples": []}
        self.assumptions = []
        self.notes = []
        ensure_dirs()
        rd = os.path.join(REPLAYS, pid)
        shutil.rmtree(rd, ignore_errors=True)
        os.makedirs(rd, exist_ok=True)
        self.rdir = rd

    def violation(self, signature, description, replay_obj):
        """signature: canonical string identifying the failing case class"""
        for k in self.known:
            if k["signature"] == signature:
                self.known_hits.setdefault(signature, (k, 0))
                self.known_hits[signature] = (k, self.known_hits[signature][1] + 1)
                return
        self.violations.append((signature, description, replay_obj))

    def finish(self, level="model_checking"):
        n = 0
        seen = set()
        for sig, desc, obj in self.violations:
            n += 1
            if n > 20 and sig in seen:
                continue
            seen.add(sig)
            path = os.path.join(self.rdir, "%d.json" % n)
            with open(path, "w") as f:
                json.dump({"property": self.pid, "signature": sig, "description": desc, "case": obj}, f, indent=1)
            print("VIOLATION property=%s replay=%s  # %s" % (self.pid, path, desc[:300]), flush=True)
        for sig, (k, cnt) in self.known_hits.items():
            print("KNOWN-FINDING: property=%s %s (observed %d times this run)" % (self.pid, k["what"], cnt), flush=True)
        ev = {
            "property_id": self.pid, "tier": self.tier, "seed": self.seed, "level": level,
            "coverage": self.cov, "assumptions": self.assumptions, "wall_s": round(time.time() - self.t0, 2),
            "violations": len(self.violations),
        }
        if self.notes:
            ev["coverage"]["notes"] = self.notes
        ev["coverage"]["known_findings_reobserved"] = [k["what"] for (k, _) in self.known_hits.values()]
        with open(os.path.join(EVIDENCE, self.pid + ".json"), "w") as f:
            json.dump(ev, f, indent=1, sort_keys=True)
        return 1 if self.violations else 0


def sha(*paths):
    h = hashlib.sha256()
    for p in paths:
        h.update(open(p, "rb").read())
    return h.hexdigest()[:16]
