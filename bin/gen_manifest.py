#!/usr/bin/env python3
"""Regenerates MANIFEST.json from the table below (single source of truth)."""
import json, os, subprocess
V = os.path.dirname(os.path.dirname(os.path.abspath(__file__)))
hooks = subprocess.run(["git", "-C", "/repo", "log", "--format=%H %s"], stdout=subprocess.PIPE, text=True).stdout.splitlines()
hook_commits = [l.split()[0] for l in hooks if "verif hook" in l]

CLAIMED = {
 "C01": ("TLA+ spec Adjacency (Mirror, ObserversAgree invariants) model-checked exhaustively with TLC; every TLC-emitted (state, operation) case replayed into digraph and sync_digraph; recorded random histories validated event-by-event by TLC (TraceAdjacency)",
         "Exhaustive for every multigraph state with <=3 nodes / <=3 (quick) or <=4 (thorough) live edges / 2 edge values and every operation from it, on the real code of both directed flavours; seeded 8-node histories beyond. A violation is always a step or state TLC rejected.", "§4 C01"),
 "C02": ("TLA+ spec Adjacency with Directed=FALSE (Symmetric, half-edge Mirror, ObserversAgree) model-checked exhaustively; TLC-emitted cases replayed into ungraph and sync_ungraph; recorded histories validated by TLC",
         "As C01 for the undirected flavours: either endpoint as caller, self-loops, parallel edges in both orientations are in the enumerated space by construction.", "§4 C02"),
 "C03": ("TLA+ contract layer (Contract(op) = set of allowed outcomes) and algorithm layer (Impl(op)) of Adjacency, Impl refines Contract checked by TLC; every (state, operation) case replayed on all four flavours through handles of rotating provenance, panics and self-deadlocks (lock-point hook) captured as outcomes; mismatches adjudicated by TLC",
         "Every (abstract state, operation) pair within the bounds is executed against all four implementations and its complete outcome (return value, all lists of all nodes) compared with the outcomes the contract allows.", "§4 C03"),
}

SEARCH_NOTE = "TLA+ Search (algorithm layer: queue / std BinaryHeap / recursion stack, edge tree, back-tracking) model-checked against SearchProps (property layer) with TLC; every finished run TLC emits is replayed into the real traversals (all entry points, targets, plain/for_each/filter) and compared exactly; disagreements and queries recorded on random larger graphs are judged by TLC on the property layer (TraceSearch)"
for _pid, _t in {
 "C04": "bfs: result iff target reachable in the accepted graph, valid chained existing accepted edges, fewest edges; search() returns the target in the same cases",
 "C05": "dfs: result iff reachable, valid path, no node twice; search() likewise",
 "C06": "pfs min/max: expansion order by node value (ExpansionOrderOK on the examined-edge sequence of the real heap), path iff reachable, node comparison table (Ord/PartialOrd by value, Eq by key) judged by TLC",
 "C07": "target-free runs of all six traversal kinds: bag of closure invocations = bag of list entries of reachable nodes; rejected triples never in any result; reachability in the accepted graph",
 "C08": "full configuration matrix {bfs,dfs,pfs-min,pfs-max,pre,post} x {search,search_path,search_cycle,search_nodes,search_edges} x {plain,transposed} on digraph and sync_digraph; the transposed result must satisfy the same predicate on the reversed lists",
 "C09": "search_cycle for bfs/dfs/pfs: result iff a cycle through the root exists; genuine, no repeated node, bfs shortest (directed); closed walk (undirected)",
 "C10": "preorder/postorder (directed) and order().pre()/.post() (undirected): exact 'some DFS discovers/finishes in this order' decision (PreSim/PostSim) and TreeEdgesOK for search_edges",
}.items():
    CLAIMED[_pid] = (SEARCH_NOTE, "Exhaustive over all multigraphs with <=3 nodes / <=3 edges (quick; thorough adds 2 edge values, all filter subsets, 4 nodes) x roots x targets x filters: " + _t + ". Seeded random graphs (12 / 30 nodes) beyond.", "§4 " + _pid)

CLAIMED["C11"] = ("TLA+ Scc (both Kosaraju passes over EVERY container iteration order pi, on DfsOrder's functional orderings) model-checked against IsSccPartition; expected partition per graph emitted by TLC and compared with scc() on several fresh containers / insertion orders; disagreements and random 16/30-node graphs judged by TLC",
  "All directed multigraphs with 3 nodes/<=4 edges and 4 nodes/<=4 edges (thorough: <=5 / <=5) x all container orders in the model; 12 (thorough 24) fresh hash maps per graph on digraph and sync_digraph; random graphs on 43 (thorough 204) fresh containers each.", "§4 C11")
CLAIMED["C12"] = ("TLA+ Serde: RoundTripAllOrders (every small graph x every container order) model-checked; every emitted graph is round-tripped through the real serde_json and serde_cbor code of all four containers; graph/ser/de events judged by TLC (document is Serialize(graph, pi) for its own pi; result satisfies RoundTripOK)",
  "All multigraphs with 3 nodes/<=3 edges/2 values (thorough <=4) x 2 formats x several fresh containers on all four flavours, seeded graphs up to 40 nodes.", "§4 C12")
CLAIMED["C13"] = ("TLA+ Serde: every small abstract document (repeated keys, undeclared endpoints, empty lists) enumerated by TLC with the outcome of Deser, checked against UntrustedOK; rendered as JSON and CBOR and deserialised by the real code under a watchdog; disagreements and seeded structural/byte-level mutations judged by TLC",
  "All documents with <=2 node entries / <=2 edge entries over 3 keys (thorough <=3/<=3) x 2 formats x 2 key types (u32, long non-ASCII String) x 4 container types; 2 000 (thorough 50 000) mutated documents per flavour. Panic or hang is a rejected outcome.", "§4 C13")

CLAIMED["C18"] = ("TLA+ Container (key->node map over objects incl. a duplicate-key object, Views, CStep, DotOK) : MapLaws model-checked; every (container state, operation) case TLC emits replayed on all four containers through handles handed out by the container; DOT exports of every state and seeded long histories judged event-by-event by TLC (TraceContainer)",
  "All container states over 3 keys + 1 duplicate-key object x adjacency states with <=2 edges (thorough: 2 values, <=3 edges) x every operation; to_dot/to_dot_with_attr under the callback family {none,one,two attrs}^3; random histories over 6 keys + 2 duplicates.", "§4 C18")

CLAIMED["C15"] = ("paired trace validation: seeded whole-API programs executed side by side on each plain/sync pair, TLC (TracePaired) requires equal results and equal projected states on every event besides the normal match against Container/Adjacency; plus the exhaustive TLC-emitted case sets of MC_Adjacency, MC_Search and MC_Container replayed on both members of each pair and compared case by case",
  "The specification has a single model per pair (only Directed differs); 50 programs x 200 calls per pair (thorough 1000 x 500) over mutations, container calls, all traversals with options, observers, comparisons, scc, serde and DOT; all enumerated cases of the other checks on both members.", "§4 C15")

CLAIMED["C20"] = ("TLA+ MC_Cursor (positional cursors over the live lists of Adjacency, Search step machine, scripts of operations run after the k-th yield) model-checked (LastYieldExists, Bounded, MirrorKept); every (graph, loop, script) run replayed inside the real loop bodies / closures on all four flavours; disagreements and seeded random runs judged step by step by TLC (TraceCursor); self-deadlocks reported through the lock-point hook",
  "All graphs with 3 nodes/<=2 edges (thorough <=3) x loops {iter_out,iter_in,iter,bfs,dfs,pfs,pre,post} x directions x cycle mode x every single-operation script at every yield index (thorough: also 2-operation scripts); random 6-node runs with up to 6 script operations. Plain edge loops are driven with size_hint() between steps; harness built with overflow checks.", "§4 C20")

CLAIMED["C19"] = ("TLA+ Ownership (strong holders = program handles, container, live Edge lists / orderings / Paths; adjacency entries weak) model-checked (ResultsKeepAlive, EdgesOwnNothing, AllDroppedAllReleased); every (state, action) case replayed on all four flavours with drop-counting payloads; released set compared after every step, all result nodes dereferenced, everything dropped at the end",
  "All states over 3 objects / <=2 weak edges (thorough <=3) incl. cycles and self-loops / <=2 handles / container / one live result x every enabled action, each built from scratch.", "§4 C19")

CLAIMED["C17"] = ("TLA+ Locks (every public call as a program of lock steps, poisoning, Linearize property layer) explored by TLC over every scenario x interleaving; the same scenarios executed with real threads on the real RwLocks under a deterministic scheduler on the lock-point hook (all grant sequences, real blocking probed, writer preference simulated); per scenario the real outcome set must equal the model's, every outcome is judged by TLC (Linearizable, panic, poison, deadlock); listed design defects reported as KNOWN-FINDING by scenario class",
  "All scenarios of 2 threads x 1 call over 2 nodes and initial graphs with <=1 edge, plus <=2 edges with values {1,2} (quick: on the real locks only the initial graphs with parallel edges of different values; thorough: all, and 3 nodes), a rotational 3-thread family, every interleaving of lock acquisitions: ~12 000 scenarios / ~560 000 real executions per quick run. 26 scenario classes are genuine, unrepaired design-level defects (known_findings.json, replayable examples in known_findings_replays/); any other failing class is a VIOLATION. Also free-running stress rounds judged by TraceLocks (every second one a churn round: one thread creating / connecting / disconnecting / dropping short-lived neighbours while three threads iterate and search) and the liveness property EveryRunEnds.", "§4 C17")

CLAIMED["C14"] = ("TLA+ Macros (invocation ASTs, Denote = the insert/connect fold or a panic naming the unlisted key, MacroOK property layer) enumerated and checked (FoldOK) by TLC; every AST x 4 forms x 4 macros rendered as Rust source, compiled against the working tree and run; observed graph / panic compared with the emitted denotation, disagreements judged by TLC",
  "All invocations with <=2 node entries (thorough <=3) over keys {1,2} with targets in {1,2,3} (3 = unlisted), absent / empty / non-empty edge lists, self-loops, repeats, forward references x 4 forms x 4 macros (~2 700 generated programs per quick run) plus the *_node!/*_connect! helpers.", "§4 C14")
CLAIMED["C16"] = ("TLA+ SendSync (auto-trait derivation as a greatest fixed point over the recursive node types, explicit unsafe impls as data, property layer Allowed / NoRace) checked by TLC for all 64 capability assignments; the compiler's actual Send/Sync table for 4 flavours x {Node, Edge, Graph} x 64 witness payload combinations (generated probe crate) judged row by row by TLC; generic positive obligations must type-check",
  "Exhaustive over the capability lattice {Send+Sync, Send only, Sync only, neither}^3; by parametricity this decides 'only if' for all payload types. Plus 187 carrier rows (search builders with their type-erased callback: never Send/Sync; iterators and paths: only if all payloads are Send+Sync), obtained through the public API and probed at value level.", "§4 C16")

NOT_YET = {}
props = [json.loads(l) for l in open(os.path.join(V, "properties.jsonl"))]
checks = []
for p in props:
    pid = p["id"]
    if pid in CLAIMED:
        tech, text, ref = CLAIMED[pid]
        checks.append({
            "property_id": pid,
            "quick_cmd": "bin/check %s --tier quick" % pid,
            "thorough_cmd": "bin/check %s --tier thorough" % pid,
            "evidence_file": "/verif/evidence/%s.json" % pid,
            "replay_cmd_template": "bin/check %s --replay {path}" % pid,
            "engine": "tlc+gdslh",
            "level_claimed": {"category": "model_checking", "text": text, "design_ref": ref},
            "level_note": "Trusted: TLC 1.8, CommunityModules Json/IOUtils, rustc/cargo, serde_json, the harness projection (cross-checked by redundant observers). Exhaustive only within the stated constants; seeded sampling beyond.",
            "technique": tech,
        })
na = [{"property_id": p["id"], "reason": NOT_YET.get(p["id"], "check not built yet in this round (work in progress; see DESIGN.md §9)")}
      for p in props if p["id"] not in CLAIMED]
m = {
 "version": 1,
 "setup_cmd": "cd /verif/harness && CARGO_NET_OFFLINE=true cargo build --release --offline && cd /verif/probe/sendsync && CARGO_NET_OFFLINE=true cargo build --offline",
 "hooks": {
   "guard": "gdsl_verif",
   "enable": "RUSTFLAGS='--cfg gdsl_verif' (set in /verif/harness/.cargo/config.toml; the harness is a path-dependency build of /repo)",
   "baseline_off_cmd": "cd /repo && cargo test --workspace --no-fail-fast --offline",
   "source_commits": hook_commits,
   "add_only": False,
 },
 "engines": [
   {"name": "tlc+gdslh", "path": "/verif/bin/check", "serves_properties": sorted(CLAIMED),
    "kind_free_text": "TLA+ specification in /verif/spec checked with TLC; bound to the implementation by replaying TLC-emitted cases into the real code and by validating traces recorded from the real code against the specification (Rust harness /verif/harness)"}
 ],
 "checks": checks,
 "not_applicable": na,
 "notes": "See DESIGN.md (as built: §6 findings, §7 the 51 seeded changes and which checks catch them, §8 false alarms and machinery defects met). known_findings.json lists genuine defects (15 repaired ones as 'fixed: property=<id> <commit> ...', 26 unrepaired C17 scenario classes as 'findings'). seeded/benign/ holds behaviour-preserving refactorings that must stay alarm-free. spec/README.md indexes the TLA+ modules.",
}
json.dump(m, open(os.path.join(V, "MANIFEST.json"), "w"), indent=1)
print("claimed", sorted(CLAIMED), "not claimed", [x["property_id"] for x in na])
