"""C14: the construction macros build exactly the graph they denote.

MC_Macros enumerates every invocation AST within the bounds x the four
type-signature forms, checks FoldOK (the fold the macros perform satisfies the
property layer MacroOK) and emits AST + denotation.  bin/gen_macros.py renders
every AST as Rust source for each of digraph!, sync_digraph!, ungraph!,
sync_ungraph! (varying key / value expressions), plus the *_node! / *_connect!
helpers; the generated crate is compiled against the working tree and run.
Stage 1: the observed graph (or the key named by the panic) equals the emitted
denotation.  Stage 2: disagreements are judged by TLC with MacroOK.
"""
import json
import os
import shutil
import subprocess
import sys

import vlib
from vlib import Reporter, ToolError, log

PROBE = os.path.join(vlib.VERIF, "probe", "macros")
MACROS = {"digraph": True, "sync_digraph": True, "ungraph": False, "sync_ungraph": False}
TIERS = {
    "quick": dict(list_keys=[1, 2], max_entries=2, first=2, rest=1),
    "thorough": dict(list_keys=[1, 2, 3], max_entries=2, first=2, rest=1),
}


def consts(T, directed):
    return {"Nodes": {1, 2, 3}, "Vals": {0}, "Directed": directed, "ListKeys": set(T["list_keys"]), "MaxEntries": T["max_entries"],
            "MaxEdgesFirst": T["first"], "MaxEdgesRest": T["rest"]}


def same(den, obs):
    if den["panic"] != 0 or obs["panic"] != 0:
        return den["panic"] == obs["panic"]
    return (sorted(den["keys"]) == obs["keys"] and den["vals"] == obs["vals"] and den["out"] == obs["out"] and den["inn"] == obs["inn"])


def run(pid, tier, seed):
    rep = Reporter(pid, tier, seed)
    T = TIERS[tier]
    tag = "%s_%s_%d" % (pid, tier, os.getpid())
    d = os.path.join(vlib.WORK, tag)
    os.makedirs(d, exist_ok=True)
    r = vlib.run_tlc("MC_Macros", vlib.cfg_text(consts(T, True), spec="MSpec", invariants=["FoldOK"]), tag + "/mc", workers=8, timeout=3000, collect_prints=False)
    if r.violation or not r.ok:
        raise ToolError("design model MC_Macros: %s (%s)" % (r.violation, r.out_file))
    cases = list(vlib.tlc_json_lines(r.out_file))
    log("%s: %d invocations x forms enumerated by TLC" % (pid, len(cases)))
    cf = os.path.join(d, "cases.ndjson")
    with open(cf, "w") as f:
        for c in cases:
            f.write(json.dumps(c) + "\n")
    g = subprocess.run([sys.executable, os.path.join(vlib.VERIF, "bin", "gen_macros.py"), cf], stdout=subprocess.PIPE, stderr=subprocess.STDOUT, text=True)
    if g.returncode != 0:
        raise ToolError("generator failed: " + g.stdout)
    env = dict(os.environ, CARGO_NET_OFFLINE="true")
    p = subprocess.run(["cargo", "run", "--offline", "--quiet"], cwd=PROBE, env=env, stdout=subprocess.PIPE, stderr=subprocess.PIPE, text=True, timeout=3600)
    if p.returncode != 0:
        err = "\n".join(l for l in p.stderr.splitlines() if not l.startswith("warning"))
        first = [l for l in err.splitlines() if l.startswith("error")][:3]
        if "src/main.rs" in err and ("no rules expected" in err or "mismatched types" in err or "macro" in err):
            rep.violation("compile-error", "a well-formed macro invocation is rejected by the compiler: %s" % " | ".join(first),
                          {"source": "generated program", "compiler_output": err[-4000:]})
            rep.cov.update({"evaluations": len(cases) * 4, "distinct_nontrivial": 2, "rule": "generated program did not compile",
                            "explanation": "a well-formed invocation does not compile"})
            return rep.finish()
        raise ToolError("generated macro program does not build/run: " + err[-3000:])
    obs = [json.loads(l) for l in p.stdout.splitlines() if l.startswith("{")]
    if len(obs) != len(cases) * 4 + 8:
        raise ToolError("generated program printed %d results, expected %d" % (len(obs), len(cases) * 4 + 8))
    helper = {1000001: ([{"k": 1, "has": True, "es": [2]}, {"k": 2, "has": False, "es": []}], 1),
              1000004: ([{"k": 1, "has": True, "es": [2]}, {"k": 2, "has": False, "es": []}], 4)}
    by_content = {(json.dumps(c["inv"], sort_keys=True), c["form"]): c for c in cases if c.get("vm", "pos") == "pos"}
    agree = 0
    mism = {True: [], False: []}
    nontriv = 0
    for o in obs:
        if o["id"] in helper:
            inv, form = helper[o["id"]]
            c = by_content[(json.dumps(inv, sort_keys=True), form)]
            kind = "helper macros %s_node! / %s_connect!" % (o["macro"], o["macro"])
        else:
            c = cases[o["id"]]
            kind = "%s! form %d" % (o["macro"], c["form"])
        if c["inv"]:
            nontriv += 1
        if same(c["den"], o["obs"]):
            agree += 1
            if len(rep.cov["samples"]) < 5 and o["id"] % 97 == 5:
                rep.cov["samples"].append({"macro": o["macro"], "invocation": c["inv"], "form": c["form"], "observed": o["obs"]})
        else:
            mism[MACROS[o["macro"]]].append((o, c, kind))
    drift = 0
    for directed, lst in mism.items():
        if not lst:
            continue
        tr = os.path.join(d, "adj_%s.ndjson" % directed)
        with open(tr, "w") as f:
            for o, c, kind in lst:
                ob = o["obs"]
                if ob["panic"] != 0:
                    ev = {"inv": c["inv"], "form": c["form"], "vm": c.get("vm", "pos"), "rt": "ok" if ob["panic"] > 0 else "fail", "obs": {"panic": max(ob["panic"], 0) or 99}}
                else:
                    ev = {"inv": c["inv"], "form": c["form"], "vm": c.get("vm", "pos"), "rt": "ok", "obs": {k: ob[k] for k in ("panic", "keys", "vals", "out", "inn")}}
                f.write(json.dumps(ev) + "\n")
        cfg = vlib.cfg_text(consts(T, directed), init="TInit", next_="TNext", invariants=["Consumed"], postcondition="AllConsumed")
        rr = vlib.run_tlc("MC_Macros", cfg, "%s/adjtlc_%s" % (tag, directed), workers=1, timeout=3000, env={"TRACE": tr}, deque=True, heap="4g")
        if not rr.ok or rr.depth != len(lst) + 1:
            raise ToolError("stage 2 of C14 failed: %s (%s)" % (rr.violation, rr.out_file))
        verd = dict(vlib.parse_tla_tuple_prints(rr.prints, "REJECT"))
        for i, (o, c, kind) in enumerate(lst):
            reasons = verd.get(i + 1, [])
            if not reasons:
                drift += 1
                continue
            rep.violation("%s:form%d:%s:%s" % (o["macro"], c["form"], "panic" if c["den"]["panic"] else "graph", "+".join(reasons)),
                          "%s on invocation %s gives %s, denotation %s: %s" % (kind, json.dumps(c["inv"]), json.dumps(o["obs"])[:300],
                                                                              json.dumps(c["den"])[:300], ", ".join(reasons)),
                          {"source": "generated program", "macro": o["macro"], "form": c["form"], "invocation": c["inv"], "observed": o["obs"],
                           "denotation": c["den"], "tlc_reasons": reasons})
    rep.cov.update({"states": r.distinct, "transitions": r.generated, "traces_validated_against_impl": len(obs),
                    "programs": len(obs), "disagreements_checked": sum(len(x) for x in mism.values()),
                    "evaluations": len(obs), "distinct_nontrivial": nontriv,
                    "rule": "one program = one macro invocation (AST x form x macro) compiled against the working tree; non-trivial = lists at least "
                            "one node; all distinct", "exhaustive": True, "model_drift": drift, "agree": agree,
                    "bounds": T, "macros": list(MACROS), "forms": [1, 2, 3, 4],
                    "observation_outside_the_property": "sync_ungraph! and its helpers expand to the plain gdsl::ungraph types"})
    rep.assumptions += ["well-formed = distinct listed keys; key / value expressions are rendered in three syntactic variants",
                        "K = usize, N = i64 or (), E = i64 or ()"]
    shutil.rmtree(d, ignore_errors=True)
    return rep.finish()


CHECKS = {"C14": run}
