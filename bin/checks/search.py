"""C04-C10: traversals.

spec -> impl : MC_Search builds every small multigraph, runs every selected
  traversal configuration step by step (algorithm layer, Search.tla), checks
  with TLC that each finished run satisfies the property layer (SearchProps:
  the Refines* invariants) and emits the run. The harness performs the same
  query on the real code (all entry points, all targets, plain / for_each /
  filter) and compares result and examined-edge sequence exactly (stage 1).
stage 2      : every disagreement is judged by TLC against the property layer
  only (TraceSearch); accepted = model drift (exit 0), rejected = VIOLATION.
impl -> spec : queries on seeded random larger graphs are recorded and each
  gets a TLC verdict from TraceSearch.
"""
import concurrent.futures as cf
import json
import os
import shutil

import vlib
from vlib import Reporter, ToolError, log

ALLK = ["bfs", "dfs", "pfsmin", "pfsmax", "pre", "post"]
ALL4 = ["digraph", "sync_digraph", "ungraph", "sync_ungraph"]
PROPS = {
    "C04": dict(kinds=["bfs"], dirs=["out", "in"], cyc=[False], flavours=ALL4),
    "C05": dict(kinds=["dfs"], dirs=["out", "in"], cyc=[False], flavours=ALL4),
    "C06": dict(kinds=["pfsmin", "pfsmax"], dirs=["out", "in"], cyc=[False], flavours=ALL4, cmp=True,
                families_thorough=[dict(nodes=3, vals=1, max_edges=3, rej="single", nvals=[0, 1, 2]),
                                   dict(nodes=4, vals=1, max_edges=3, rej="none", nvals=[0, 1])]),
    "C07": dict(kinds=ALLK, dirs=["out", "in"], cyc=[False, True], flavours=ALL4, rej_quick="small", nvals_quick=[0], nvals_thorough=[0],
                kinds_quick=["bfs", "dfs", "pfsmin", "pre", "post"],
                families_thorough=[dict(nodes=3, vals=2, max_edges=3, rej="small", nvals=[0]),
                                   dict(nodes=3, vals=1, max_edges=2, rej="all", nvals=[0]),
                                   dict(nodes=4, vals=1, max_edges=3, rej="none", nvals=[0])]),
    "C08": dict(kinds=ALLK, dirs=["out", "in"], cyc=[False, True], flavours=["digraph", "sync_digraph"], nvals_quick=[0],
                record_dirs=["in"], record_scale=4,
                families_thorough=[dict(nodes=3, vals=1, max_edges=3, rej="small", nvals=[0, 1]),
                                   dict(nodes=4, vals=1, max_edges=3, rej="none", nvals=[0])]),
    "C09": dict(kinds=["bfs", "dfs", "pfsmin", "pfsmax"], dirs=["out", "in"], cyc=[True], flavours=ALL4,
                families_thorough=[dict(nodes=3, vals=2, max_edges=3, rej="small", nvals=[0, 1]),
                                   dict(nodes=3, vals=1, max_edges=2, rej="all", nvals=[0, 1]),
                                   dict(nodes=4, vals=1, max_edges=3, rej="none", nvals=[0])]),
    "C10": dict(kinds=["pre", "post"], dirs=["out", "in"], cyc=[False], flavours=ALL4),
}
TIERS = {
    "quick": dict(families=[dict(nodes=3, vals=1, max_edges=3, rej="single", nvals=[0, 1])],
                  graphs=24, gnodes=12, queries=40, workers=16),
    "thorough": dict(families=[dict(nodes=3, vals=2, max_edges=3, rej="all", nvals=[0, 1, 2]),
                               dict(nodes=4, vals=1, max_edges=3, rej="single", nvals=[0, 1])],
                     graphs=80, gnodes=20, queries=60, workers=16),
}
INVS = ["RefinesPathSearch", "RefinesExpansionOrder", "RefinesExamined", "RefinesFilter",
        "RefinesCycle", "RefinesOrder", "RefinesDirection", "RefinesFunctional"]
BASE = {"bfs": "C04", "dfs": "C05", "pfsmin": "C06", "pfsmax": "C06"}
REACH_REASONS = {"missed-reachable-target", "result-for-unreachable-target", "missed-cycle",
                 "cycle-reported-but-none-exists", "not-a-dfs-preorder", "not-a-dfs-postorder", "bad-tree-edges"}


def props_for(ev, reason, directed):
    """which of the given properties a TLC verdict reason on this event concerns"""
    if reason == "comparison-wrong":
        return {"C06"}
    kind = ev["kind"]
    main = "C09" if ev["cyc"] else ("C10" if kind in ("pre", "post") else BASE[kind])
    if reason == "examined-bag-wrong":
        s = {"C07"}
    elif reason == "examined-nonexistent-edge":
        s = {"C07"} | ({"C08"} if directed else set())
    elif reason == "expansion-order-wrong":
        s = {"C06"}
    elif reason == "failure":
        s = {main, "C07"}
    else:
        s = {main}
        if reason == "rejected-edge-in-result" or (ev.get("rej") and reason in REACH_REASONS):
            s.add("C07")
        if reason == "nonexistent-edge-in-result" and directed:
            s.add("C08")
    if directed and ev.get("dir") == "in":
        s.add("C08")
    return s


def signature(fl, ev, reasons):
    if ev.get("ev") == "cmp":
        return "%s:cmp:%s" % (fl, "+".join(sorted(reasons)))
    return "%s:%s:%s:%s:%s:%s:%s" % (fl, ev["kind"], ev["dir"], "cycle" if ev["cyc"] else "path",
                                     ev["entry"], "filter" if ev.get("rej") else "nofilter", "+".join(sorted(reasons)))


def tla_strs(xs):
    return "{" + ", ".join('"%s"' % x for x in xs) + "}"


def model(directed, fam, conf, tag, workers):
    c = {"Nodes": set(range(1, fam["nodes"] + 1)), "Vals": set(range(1, fam["vals"] + 1)), "Directed": directed,
         "MaxEdges": fam["max_edges"], "QKinds": tla_strs(conf["kinds"]), "QDirs": tla_strs(conf["dirs"]),
         "QCyc": set(conf["cyc"]), "RejMode": '"%s"' % fam["rej"], "NVals": set(fam["nvals"])}
    c["QCyc"] = "{" + ", ".join("TRUE" if x else "FALSE" for x in conf["cyc"]) + "}"
    cfg = vlib.cfg_text(c, spec="MSpec", invariants=INVS)
    r = vlib.run_tlc("MC_Search", cfg, tag, workers=workers, timeout=6000, collect_prints=False, heap="24g")
    if r.violation or not r.ok:
        raise ToolError("design model MC_Search (%s): algorithm layer does not satisfy the property layer: %s (see %s)"
                        % (tag, r.violation, r.out_file))
    return r


def tlc_verdicts(trace, directed, nodes, vals, tag, exact=10):
    cfg = vlib.cfg_text({"Nodes": set(range(1, nodes + 1)), "Vals": set(range(1, vals + 1)), "Directed": directed,
                         "ExactLimit": exact}, spec="TSpec", invariants=["Consumed"], postcondition="AllConsumed")
    r = vlib.run_tlc("TraceSearch", cfg, tag, workers=1, timeout=3000, env={"TRACE": trace}, deque=True, heap="6g")
    n = sum(1 for x in open(trace) if x.strip())
    if not r.ok or r.depth != n + 1:
        raise ToolError("TraceSearch did not consume %s: depth %d of %d events; %s (%s)" % (trace, r.depth, n, r.violation, r.out_file))
    return dict(vlib.parse_tla_tuple_prints(r.prints, "REJECT"))


def adjudicate(mism, directed, nodes, tag):
    if not mism:
        return []
    d = os.path.join(vlib.WORK, tag)
    os.makedirs(d, exist_ok=True)
    tr = os.path.join(d, "adjudicate.ndjson")
    with open(tr, "w") as f:
        for m in mism:
            f.write(json.dumps({"ev": "graph", "out": m["out"], "inn": m["inn"], "nval": m["nval"], "n": nodes}) + "\n")
            ev = {k: m[k] for k in ("kind", "root", "dir", "cyc", "rej", "target", "entry", "meth", "res", "rt")}
            ev["ev"] = "query"
            if m.get("examined") is not None:
                ev["examined"] = m["examined"]
            f.write(json.dumps(ev) + "\n")
    verd = tlc_verdicts(tr, directed, nodes, 3, tag + "/tlc")
    return [(m, verd.get(2 * i + 2, [])) for i, m in enumerate(mism)]


def run(pid, tier, seed):
    rep = Reporter(pid, tier, seed)
    conf = dict(PROPS[pid])
    if conf.get("kinds_" + tier):
        conf["kinds"] = conf["kinds_" + tier]
    T = TIERS[tier]
    flavours = conf["flavours"]
    tag = "%s_%s_%d" % (pid, tier, os.getpid())
    dirs = sorted({vlib.DIRECTED[f] for f in flavours}, reverse=True)
    states = transitions = cases = execs = nontriv = drift = 0
    models = []
    for fi, fam in enumerate(conf.get("families_" + tier, T["families"])):
        if conf.get("rej_" + tier):
            fam = dict(fam, rej=conf["rej_" + tier])
        if conf.get("nvals_" + tier):
            fam = dict(fam, nvals=conf["nvals_" + tier])
        for directed in dirs:
            name = "%s_f%d" % ("dir" if directed else "und", fi)
            r = model(directed, fam, conf, "%s/mc_%s" % (tag, name), T["workers"])
            states += r.distinct
            transitions += r.generated
            log("%s: model %s: %d distinct states, %.1fs" % (pid, name, r.distinct, r.wall))
            models.append({"model": "MC_Search", "Directed": directed, "Nodes": fam["nodes"], "Vals": fam["vals"],
                           "MaxEdges": fam["max_edges"], "kinds": conf["kinds"], "dirs": conf["dirs"], "cycle_modes": conf["cyc"],
                           "RejMode": fam["rej"], "NVals": fam["nvals"], "distinct_states": r.distinct,
                           "states_generated": r.generated, "tlc_wall_s": round(r.wall, 1), "invariants": INVS})
            fls = [f for f in flavours if vlib.DIRECTED[f] == directed]
            d = os.path.join(vlib.WORK, tag)
            jobs = [("replay-search", {"flavour": f, "cases": r.out_file, "max-violations": 6000, "bucket-cap": 25},
                     os.path.join(d, "replay_%s_%s.json" % (name, f))) for f in fls]
            for res in vlib.harness_parallel(jobs, timeout=6000):
                if res["cases"] == 0:
                    raise ToolError("no cases emitted by MC_Search for %s" % name)
                cases += res["cases"]
                execs += res["executions"]
                nontriv += res["distinct_nontrivial"]
                for s in res["samples"][:2]:
                    if len(rep.cov["samples"]) < 6:
                        rep.cov["samples"].append(s)
                if res["n_mismatch"] > len(res["mismatches"]):
                    rep.notes.append("%s %s: %d disagreements with the algorithm layer in %d classes, %d adjudicated (up to 25 per class)"
                                     % (res["flavour"], name, res["n_mismatch"], len(res.get("mismatch_classes", {})), len(res["mismatches"])))
                for m, reasons in adjudicate(res["mismatches"], directed, fam["nodes"], "%s/adj_%s_%s" % (tag, name, res["flavour"])):
                    if not m.get("graph_unchanged", True):
                        reasons = list(reasons) + ["failure"]
                    mine = [x for x in reasons if pid in props_for(m, x, directed)]
                    if not reasons:
                        drift += 1
                        continue
                    if mine:
                        rep.violation(signature(res["flavour"], m, mine),
                                      "%s: out=%s inn=%s nval=%s %s%s root=%s target=%s %s [%s] rej=%s returned %s; TLC: %s"
                                      % (res["flavour"], json.dumps(m["out"]), json.dumps(m["inn"]), m["nval"], m["kind"],
                                         ".transpose()" if m["dir"] == "in" else "", m["root"], m["target"], m["entry"], m["meth"],
                                         json.dumps(m["rej"]), json.dumps(m["res"])[:160], ", ".join(mine)),
                                      dict(m, source="tlc-generated-case", tlc_reasons=reasons))
    # vacuity guard: every action of the step machine is taken (small constants, -coverage 1)
    cdir = dirs[0]
    cc = {"Nodes": {1, 2, 3}, "Vals": {1}, "Directed": cdir, "MaxEdges": 2, "QKinds": tla_strs(conf["kinds"]),
          "QDirs": tla_strs(conf["dirs"]), "QCyc": "{" + ", ".join("TRUE" if x else "FALSE" for x in conf["cyc"]) + "}",
          "RejMode": '"single"', "NVals": {0, 1}}
    need = {"StepFrontier"} if set(conf["kinds"]) <= {"bfs", "pfsmin", "pfsmax"} else {"StepStack"} if not set(conf["kinds"]) & {"bfs", "pfsmin", "pfsmax"} else {"StepFrontier", "StepStack"}
    cov = vlib.action_coverage("MC_Search", vlib.cfg_text(cc, spec="MSpecQuiet", invariants=INVS), "%s/cov" % tag,
                               ignore={"StepFrontier", "StepStack"} - need)
    if not need <= set(cov):
        raise ToolError("vacuous: step actions %s not exercised" % (need - set(cov)))
    # impl -> spec on larger random graphs
    d = os.path.join(vlib.WORK, tag, "rec")
    os.makedirs(d, exist_ok=True)
    pad = T["gnodes"]
    jobs = []
    for fl in flavours:
        tr = os.path.join(d, "trace_%s.ndjson" % fl)
        jobs.append(("record-search", dict(flavour=fl, seed=seed, graphs=T["graphs"] * conf.get("record_scale", 1), nodes=pad, pad=pad, queries=T["queries"],
                                           kinds=",".join(conf["kinds"]), cyc=",".join("true" if c else "false" for c in conf["cyc"]),
                                           transposed=",".join("true" if x == "in" else "false" for x in conf.get("record_dirs", conf["dirs"])), trace=tr),
                     os.path.join(d, "rec_%s.json" % fl)))
    recs = vlib.harness_parallel(jobs)
    if conf.get("cmp"):
        for fl in flavours:
            cmpf = os.path.join(d, "cmp_%s.ndjson" % fl)
            vlib.harness("compare-table", dict(flavour=fl, keys=3, vals=3, trace=cmpf))
            with open(os.path.join(d, "trace_%s.ndjson" % fl), "a") as f:
                f.write(open(cmpf).read())
    events = 0

    def one(fl):
        tr = os.path.join(d, "trace_%s.ndjson" % fl)
        return fl, tr, tlc_verdicts(tr, vlib.DIRECTED[fl], pad, 3, "%s/tv_%s" % (tag, fl), exact=10)
    with cf.ThreadPoolExecutor(max_workers=4) as ex:
        for fl, tr, verd in ex.map(one, flavours):
            lines = [x for x in open(tr).read().split("\n") if x.strip()]
            events += len(lines)
            if len(rep.cov["samples"]) < 9:
                rep.cov["samples"].append({"recorded_query": fl, "event": json.loads(lines[5])})
            for ln, reasons in sorted(verd.items()):
                ev = json.loads(lines[ln - 1])
                if ev["ev"] == "cmp":
                    mine = reasons if pid == "C06" else []
                else:
                    mine = [x for x in reasons if pid in props_for(ev, x, vlib.DIRECTED[fl])]
                if not mine:
                    continue
                g = None
                for k in range(ln - 1, -1, -1):
                    e2 = json.loads(lines[k])
                    if e2["ev"] == "graph":
                        g = e2
                        break
                rep.violation(signature(fl, ev, mine),
                              "%s: recorded query %s rejected by TLC: %s" % (fl, json.dumps(ev)[:300], ", ".join(mine)),
                              {"source": "recorded-query", "flavour": fl, "graph": g, "event": ev, "tlc_reasons": reasons})
    rep.cov.update({
        "states": states, "transitions": transitions,
        "traces_validated_against_impl": cases * 1 + sum(x["graphs"] for x in recs),
        "tlc_runs_replayed_into_impl": cases, "implementation_executions_compared": execs,
        "recorded_events_validated_by_tlc": events,
        "evaluations": execs + events, "distinct_nontrivial": nontriv,
        "rule": "one execution = one (graph, node values, query, entry point, target, closure kind) on one flavour; "
                "non-trivial = graph has at least one edge; distinct by hash of all of these, summed over flavours",
        "exhaustive": True, "model_drift": drift, "models": models, "flavours": flavours, "recorders": recs,
        "action_coverage_small_model": cov,
    })
    rep.assumptions += [
        "filters are pure predicates over (source, target, value), modelled as sets of rejected triples",
        "node values do not change during a priority-first search",
        "exhaustive within the stated constants; seeded random graphs beyond (exact postorder decision up to 10 nodes, necessary conditions above)",
    ]
    shutil.rmtree(os.path.join(vlib.WORK, tag), ignore_errors=True)
    return rep.finish()


CHECKS = {p: run for p in PROPS}
