"""C18: Graph containers as key -> node maps with faithful views and DOT export.

spec -> impl : MC_Container enumerates every container state (member sets with
  a duplicate-key object x small adjacency states), checks MapLaws, and emits
  the views and the outcome of every operation (insert incl. duplicate key,
  remove, and the edge operations on members and non-members); the harness
  builds each state in the real code, compares all views, performs every
  operation through handles handed out by the container, compares again.
impl -> spec : DOT exports (to_dot and to_dot_with_attr with the attribute
  callback family {none, one, two attributes}^3) of every enumerated state, and
  seeded random long histories over 6 keys + 2 duplicate-key objects, are
  judged event by event by TLC (TraceContainer: CStep / Contract, Views, DotOK).
"""
import concurrent.futures as cf
import json
import os
import shutil

import vlib
from vlib import Reporter, ToolError, log

ALL4 = ["digraph", "sync_digraph", "ungraph", "sync_ungraph"]
TIERS = {
    "quick": dict(nk=3, nd=1, vals=1, max_edges=2, histories=8, calls=250, rnk=6, rnd=2, all_attr=False),
    "thorough": dict(nk=3, nd=1, vals=2, max_edges=3, histories=120, calls=600, rnk=6, rnd=2, all_attr=True),
}


def verdicts(trace, directed, nk, nd, tag):
    cfg = vlib.cfg_text({"Nodes": set(range(1, nk + 1)), "Vals": {1, 2, 3}, "Directed": directed, "NK": nk, "ND": nd},
                        spec="TSpec", invariants=["Consumed"], postcondition="AllConsumed")
    r = vlib.run_tlc("TraceContainer", cfg, tag, workers=1, timeout=3000, env={"TRACE": trace}, deque=True, heap="6g")
    n = sum(1 for x in open(trace) if x.strip())
    if not r.ok or r.depth != n + 1:
        raise ToolError("TraceContainer did not consume %s: depth %d of %d; %s (%s)" % (trace, r.depth, n, r.violation, r.out_file))
    return dict(vlib.parse_tla_tuple_prints(r.prints, "REJECT"))


def run(pid, tier, seed):
    rep = Reporter(pid, tier, seed)
    T = TIERS[tier]
    tag = "%s_%s_%d" % (pid, tier, os.getpid())
    d = os.path.join(vlib.WORK, tag)
    states = transitions = ops = nontriv = drift = 0
    models = []
    case_files = {}
    for directed in (True, False):
        c = {"Nodes": set(range(1, T["nk"] + 1)), "Vals": set(range(1, T["vals"] + 1)), "Directed": directed,
             "NK": T["nk"], "ND": T["nd"], "MaxEdges": T["max_edges"]}
        cfg = vlib.cfg_text(c, spec="CSpec", invariants=["MapLaws", "InvMirror"])
        r = vlib.run_tlc("MC_Container", cfg, "%s/mc_%s" % (tag, "dir" if directed else "und"), workers=8, timeout=3000, collect_prints=False)
        if r.violation or not r.ok:
            raise ToolError("design model MC_Container: %s (%s)" % (r.violation, r.out_file))
        log("%s: model Directed=%s: %d distinct states, %.1fs" % (pid, directed, r.distinct, r.wall))
        states += r.distinct
        transitions += r.generated
        case_files[directed] = r.out_file
        models.append({"model": "MC_Container", "Directed": directed, "NK": T["nk"], "ND": T["nd"], "Vals": T["vals"],
                       "MaxEdges": T["max_edges"], "distinct_states": r.distinct, "invariants": ["MapLaws", "InvMirror"]})
        fls = [f for f in ALL4 if vlib.DIRECTED[f] == directed]
        jobs = [("replay-container", {"flavour": f, "cases": r.out_file, "nk": T["nk"], "nd": T["nd"]}, os.path.join(d, "rep_%s.json" % f)) for f in fls]
        for res in vlib.harness_parallel(jobs, timeout=3000):
            if res["states"] != r.distinct:
                raise ToolError("replay consumed %d cases, TLC found %d states" % (res["states"], r.distinct))
            ops += res["ops"]
            nontriv += res["distinct_nontrivial"]
            rep.cov["samples"] += res["samples"][:1]
            mism = res["mismatches"]
            if res["n_mismatch"] > len(mism):
                rep.notes.append("%s: %d disagreements, first %d adjudicated" % (res["flavour"], res["n_mismatch"], len(mism)))
            if mism:
                tr = os.path.join(d, "adj_%s.ndjson" % res["flavour"])
                with open(tr, "w") as f:
                    for m in mism:
                        f.write(json.dumps(dict(m["pre"], ev="cstate")) + "\n")
                        if m["kind"] == "op" and m.get("rt") == "ok":
                            f.write(json.dumps({"ev": "cop", "rt": "ok", "op": m["op"], "res": m["res"], "mem": m["mem"],
                                                "out": m["state"]["out"], "inn": m["state"]["inn"], "views": m["views"]}) + "\n")
                        elif m["kind"] == "state":
                            o = m["observed"]
                            f.write(json.dumps({"ev": "cop", "rt": "ok", "op": ["remove", 0], "res": 0, "mem": o["mem"], "out": o["out"],
                                                "inn": o["inn"], "views": o["views"]}) + "\n")
                        else:
                            f.write(json.dumps({"ev": "cop", "rt": "fail", "op": m.get("op", ["build"]), "res": str(m.get("res", m.get("error")))}) + "\n")
                verd = verdicts(tr, directed, T["nk"], T["nd"], "%s/adjtlc_%s" % (tag, res["flavour"]))
                for i, m in enumerate(mism):
                    reasons = verd.get(2 * i + 2, [])
                    if m["kind"] == "state":
                        reasons = [x for x in reasons if x != "step-not-a-map-operation"]
                        if json.dumps(m["observed"]["mem"]) != json.dumps(m["pre"]["mem"]):
                            reasons.append("insert-did-not-build-the-member-set")
                    if not reasons:
                        drift += 1
                        continue
                    rep.violation("%s:%s:%s" % (res["flavour"], (m.get("op") or ["state"])[0], "+".join(sorted(reasons))),
                                  "%s: container state mem=%s out=%s, %s gave res=%s views=%s; TLC: %s"
                                  % (res["flavour"], m["pre"]["mem"], json.dumps(m["pre"]["out"]), m.get("op", "(state itself)"),
                                     json.dumps(m.get("res")), json.dumps(m.get("views", m.get("observed")))[:300], ", ".join(reasons)),
                                  dict(m, source="tlc-generated-case", tlc_reasons=reasons))
    # DOT exports of every enumerated state + random histories
    jobs = []
    for fl in ALL4:
        jobs.append(("record-container", {"flavour": fl, "cases": case_files[vlib.DIRECTED[fl]], "nk": T["nk"], "nd": T["nd"], "seed": seed,
                                          "all-attr": "true" if T["all_attr"] else "false", "trace": os.path.join(d, "dot_%s.ndjson" % fl)},
                     os.path.join(d, "dot_%s.json" % fl)))
        jobs.append(("record-container", {"flavour": fl, "nk": T["rnk"], "nd": T["rnd"], "seed": seed, "histories": T["histories"],
                                          "calls": T["calls"], "trace": os.path.join(d, "hist_%s.ndjson" % fl)},
                     os.path.join(d, "hist_%s.json" % fl)))
    recs = vlib.harness_parallel(jobs, timeout=3000)
    events = dots = 0
    todo = [(fl, k) for fl in ALL4 for k in ("dot", "hist")]

    def one(x):
        fl, kind = x
        tr = os.path.join(d, "%s_%s.ndjson" % (kind, fl))
        nk, nd = (T["nk"], T["nd"]) if kind == "dot" else (T["rnk"], T["rnd"])
        return fl, kind, tr, verdicts(tr, vlib.DIRECTED[fl], nk, nd, "%s/tv_%s_%s" % (tag, kind, fl))
    with cf.ThreadPoolExecutor(max_workers=8) as ex:
        for fl, kind, tr, verd in ex.map(one, todo):
            lines = [x for x in open(tr).read().split("\n") if x.strip()]
            events += len(lines)
            if kind == "dot" and len(lines) > 300:
                e = json.loads(lines[300])
                rep.cov["samples"].append({"flavour": fl, "dot_export": e.get("text"), "callbacks": [e.get("ga"), e.get("na"), e.get("ea")]})
            for ln, reasons in sorted(verd.items()):
                ev = json.loads(lines[ln - 1])
                st = next((json.loads(lines[k]) for k in range(ln - 1, -1, -1) if json.loads(lines[k])["ev"] in ("cstate", "cop")), None)
                rep.violation("%s:%s:%s" % (fl, ev.get("method") or (ev.get("op") or ["?"])[0], "+".join(sorted(reasons))),
                              "%s: %s event rejected by TLC: %s; %s" % (fl, ev["ev"], ", ".join(reasons), json.dumps(ev)[:400]),
                              {"source": "recorded", "flavour": fl, "state_before": st, "event": ev, "tlc_reasons": reasons})
    for x in recs:
        dots += x["dot_exports"]
    rep.cov.update({"states": states, "transitions": transitions, "traces_validated_against_impl": ops + sum(x["histories"] for x in recs),
                    "tlc_cases_replayed_into_impl": ops, "dot_exports_validated_by_tlc": dots, "recorded_events_validated_by_tlc": events,
                    "evaluations": ops + events, "distinct_nontrivial": nontriv,
                    "rule": "one case = (container state, operation) on one flavour; every case is distinct; non-trivial = all of them "
                            "(the empty container with the empty graph is one state of 876+)", "exhaustive": True, "model_drift": drift,
                    "models": models, "flavours": ALL4, "recorders": recs})
    rep.assumptions += ["objects are identified by their node value (10 x object id)",
                        "DOT text is tokenised by the harness (lexing only); statement order is hash order and is not constrained",
                        "sync_ungraph has no to_dot_with_attr; roots/leaves exist on the directed containers only"]
    shutil.rmtree(d, ignore_errors=True)
    return rep.finish()


CHECKS = {"C18": run}
