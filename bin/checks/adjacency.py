"""C01 (directed mirror), C02 (undirected symmetry), C03 (multigraph contract).

spec -> impl : MC_Adjacency is model-checked exhaustively (Mirror, Symmetric,
  ObserversAgree, Impl refines Contract, StepShape) and emits, once per distinct
  state, the state with its observers and for every operation the expected
  outcome(s).  The harness builds each state in the real code through connect(),
  compares projection + observers, performs each operation through handles of
  rotating provenance and compares the complete outcome.
impl -> spec : seeded random histories (8 nodes, hundreds of calls) are recorded
  and every event gets a verdict from TLC (TraceAdjacency).
Every mismatch of the replay is adjudicated by TLC as a one-step trace, so a
VIOLATION is always a step TLC rejected against the contract / invariants.
"""
import json
import os

import vlib
from vlib import Reporter, ToolError, log

REASONS = {
    # which TLC verdict reasons concern which property
    "C01": {"mirror-broken", "observers-disagree", "observer-values-wrong"},
    "C02": {"symmetry-broken", "observers-disagree", "observer-values-wrong"},
    "C03": {"step-not-allowed-by-contract",
            "incomplete-event (panic / deadlock inside the call or an observer)"},
}
FLAVOURS = {
    "C01": ["digraph", "sync_digraph"],
    "C02": ["ungraph", "sync_ungraph"],
    "C03": ["digraph", "sync_digraph", "ungraph", "sync_ungraph"],
}
TIERS = {
    "quick": dict(nodes=3, vals=2, max_edges=3, traces=12, calls=300, workers=8),
    "thorough": dict(nodes=3, vals=2, max_edges=4, traces=150, calls=1500, workers=16,
                     extra=[dict(nodes=4, vals=1, max_edges=3)]),
}
INVS = ["TypeOK", "InvMirror", "InvSymmetric", "InvObservers", "InvImplRefines", "InvBoundary"]


def signature(flavour, op, res, reasons):
    shape = ""
    if op and len(op) > 2 and op[0] != "isolate":
        shape = "self" if op[1] == op[2] else "pair"
    r = str(res)
    rc = "panic" if r.startswith("panic") else "deadlock" if r.startswith("deadlock") else "returned"
    return "%s:%s:%s:%s:%s" % (flavour, op[0] if op else "state", shape, rc, "+".join(sorted(reasons)))


def model_and_cases(directed, consts, tag, workers):
    """model-check MC_Adjacency and emit the cases; returns TlcResult"""
    c = {"Nodes": set(range(1, consts["nodes"] + 1)), "Vals": set(range(1, consts["vals"] + 1)),
         "Directed": directed, "MaxEdges": consts["max_edges"]}
    cfg = vlib.cfg_text(c, spec="SpecEmit", invariants=INVS, properties=["StepShape", "RefinesAdjCount"], constraints=["Bound"])
    r = vlib.run_tlc("MC_Adjacency", cfg, tag, workers=workers, timeout=3000, collect_prints=False)
    if r.violation or not r.ok:
        raise ToolError("design model MC_Adjacency (%s) does not satisfy its own invariants: %s (see %s)"
                        % (tag, r.violation, r.out_file))
    return r


def adjudicate(mismatches, directed, nodes, vals, tag):
    """TLC verdicts for replay mismatches: each becomes (state event, op event)."""
    if not mismatches:
        return []
    d = os.path.join(vlib.WORK, tag)
    os.makedirs(d, exist_ok=True)
    tr = os.path.join(d, "adjudicate.ndjson")
    idx = []
    with open(tr, "w") as f:
        for m in mismatches:
            if m["kind"] != "op":
                # the state itself could not be built / projected / observed as the spec says:
                # express it as an event from the empty state is not possible; judge observers
                # and invariants of the observed state directly
                ev = {"ev": "op", "op": ["isolate", 1], "res": "n/a"}
                st = m.get("observed_state")
                if st:
                    ev.update(out=st["out"], inn=st["inn"])
                    if isinstance(m.get("observed_obs"), list):
                        ev["obs"] = m["observed_obs"]
                f.write(json.dumps({"ev": "state", "out": m["pre"]["out"], "inn": m["pre"]["inn"]}) + "\n")
                f.write(json.dumps(ev) + "\n")
                idx.append(m)
                continue
            f.write(json.dumps({"ev": "state", "out": m["pre"]["out"], "inn": m["pre"]["inn"]}) + "\n")
            ev = {"ev": "op", "op": m["op"], "res": m["observed"]["res"]}
            if "out" in m["observed"]:
                ev["out"] = m["observed"]["out"]
                ev["inn"] = m["observed"]["inn"]
                if isinstance(m.get("observed_obs"), list):
                    ev["obs"] = m["observed_obs"]
            f.write(json.dumps(ev) + "\n")
            idx.append(m)
    cfg = vlib.cfg_text({"Nodes": set(range(1, nodes + 1)), "Vals": set(range(1, vals + 1)), "Directed": directed},
                        spec="TSpec", invariants=["Consumed"], postcondition="AllConsumed")
    r = vlib.run_tlc("TraceAdjacency", cfg, tag + "/adj", workers=1, timeout=1200, env={"TRACE": tr}, deque=True, heap="4g")
    if not r.ok:
        raise ToolError("adjudication run failed: %s (%s)" % (r.violation, r.out_file))
    verdicts = dict(vlib.parse_tla_tuple_prints(r.prints, "REJECT"))
    out = []
    for i, m in enumerate(idx):
        line = 2 * i + 2
        reasons = verdicts.get(line, [])
        if m["kind"] != "op":
            # a state reached by connect() only differs from the spec state: that is a contract
            # failure of connect (C03) in addition to whatever TLC says about the observed state
            reasons = [x for x in reasons if x != "step-not-allowed-by-contract"] + ["step-not-allowed-by-contract"]
        out.append((m, reasons))
    return out


def validate_traces(flavours, consts, seed, tag, rep, pid):
    """record random histories on each flavour and let TLC give a verdict per event"""
    jobs = []
    d = os.path.join(vlib.WORK, tag)
    os.makedirs(d, exist_ok=True)
    for fl in flavours:
        tr = os.path.join(d, "trace_%s.ndjson" % fl)
        jobs.append(("record-adj", dict(flavour=fl, seed=seed, traces=consts["traces"], calls=consts["calls"],
                                        nodes=8, pad=8, vals=3, trace=tr), os.path.join(d, "rec_%s.json" % fl)))
    recs = vlib.harness_parallel(jobs)
    import concurrent.futures as cf

    def one(fl):
        tr = os.path.join(d, "trace_%s.ndjson" % fl)
        cfg = vlib.cfg_text({"Nodes": set(range(1, 9)), "Vals": {1, 2, 3}, "Directed": vlib.DIRECTED[fl]},
                            spec="TSpec", invariants=["Consumed"], postcondition="AllConsumed")
        r = vlib.run_tlc("TraceAdjacency", cfg, tag + "/tv_" + fl, workers=1, timeout=3000, env={"TRACE": tr},
                         deque=True, heap="6g")
        return fl, tr, r
    total_events = 0
    total_hist = 0
    with cf.ThreadPoolExecutor(max_workers=4) as ex:
        for fl, tr, r in ex.map(one, flavours):
            rec = [x for x in recs if x["flavour"] == fl][0]
            if not r.ok or r.depth != rec["events"] + 1:
                raise ToolError("trace validation of %s did not consume the trace: depth %d, events %d, %s (%s)"
                                % (fl, r.depth, rec["events"], r.violation, r.out_file))
            total_events += rec["events"]
            total_hist += rec["traces"]
            rejects = vlib.parse_tla_tuple_prints(r.prints, "REJECT")
            if rejects:
                lines = open(tr).read().split("\n")
                for ln, reasons in rejects:
                    mine = [x for x in reasons if x in REASONS[pid]]
                    if not mine:
                        continue
                    ev = json.loads(lines[ln - 1])
                    prev = json.loads(lines[ln - 2]) if ln >= 2 else None
                    rep.violation(signature(fl, ev.get("op"), ev.get("res"), mine),
                                  "%s: recorded history, event %d %s -> %s rejected by TLC: %s"
                                  % (fl, ln, ev.get("op"), ev.get("res"), ", ".join(mine)),
                                  {"source": "recorded-trace", "flavour": fl, "event_no": ln, "event": ev,
                                   "previous_event": prev, "tlc_reasons": reasons})
            if len(rep.cov["samples"]) < 8:
                lines = open(tr).read().split("\n")
                rep.cov["samples"].append({"recorded_history_excerpt": fl,
                                           "events": [json.loads(x) for x in lines[40:43]]})
    return total_hist, total_events, recs


def apalache_inductive(tag):
    """extra: MirrorCount is an inductive invariant of the integer abstraction for unboundedly many edges"""
    import subprocess
    d = os.path.join(vlib.WORK, tag, "apalache")
    os.makedirs(d, exist_ok=True)
    out = []
    for args in (["--init=Init", "--inv=IndInv", "--length=0"], ["--init=IndInit", "--inv=IndInv", "--length=1"]):
        try:
            p = subprocess.run(["apalache-mc", "check", "--out-dir=" + d] + args + [os.path.join(vlib.SPEC, "apalache", "AdjCount.tla")],
                               cwd=d, stdout=subprocess.PIPE, stderr=subprocess.STDOUT, text=True, timeout=1500)
        except subprocess.TimeoutExpired:
            out.append(" ".join(args) + ": timeout (nothing depends on it)")
            continue
        if "The outcome is: NoError" in p.stdout:
            out.append(" ".join(args) + ": NoError")
        elif "Checker has found an error" in p.stdout and "outcome is: Error" in p.stdout:
            raise ToolError("Apalache refutes the inductive invariant of AdjCount: " + p.stdout[-1500:])
        else:
            out.append(" ".join(args) + ": tool problem (%s)" % p.stdout[-200:].replace("\n", " "))
    return out


def run(pid, tier, seed):
    rep = Reporter(pid, tier, seed)
    consts = TIERS[tier]
    flavours = FLAVOURS[pid]
    tag = "%s_%s_%d" % (pid, tier, os.getpid())
    dirs = sorted({vlib.DIRECTED[f] for f in flavours}, reverse=True)
    families = [consts] + consts.get("extra", [])
    states = transitions = 0
    replayed = 0
    nontriv = 0
    drift = 0
    evals = 0
    cov_models = []
    for fi, fam in enumerate(families):
        for directed in dirs:
            name = "%s_f%d" % ("dir" if directed else "und", fi)
            r = model_and_cases(directed, fam, "%s/mc_%s" % (tag, name), consts["workers"])
            states += r.distinct
            transitions += r.generated
            cov_models.append({"model": "MC_Adjacency", "Directed": directed, "Nodes": fam["nodes"], "Vals": fam["vals"],
                               "MaxEdges": fam["max_edges"], "distinct_states": r.distinct, "states_generated": r.generated,
                               "tlc_wall_s": round(r.wall, 1), "invariants": INVS, "action_properties": ["StepShape", "RefinesAdjCount"]})
            log("%s: model %s: %d distinct states, %d generated, %.1fs" % (pid, name, r.distinct, r.generated, r.wall))
            fls = [f for f in flavours if vlib.DIRECTED[f] == directed]
            d = os.path.join(vlib.WORK, tag)
            jobs = [("replay-adj", {"flavour": f, "cases": r.out_file, "max-violations": 400},
                     os.path.join(d, "replay_%s_%s.json" % (name, f))) for f in fls]
            results = vlib.harness_parallel(jobs, timeout=3000)
            for res in results:
                if res["states"] != r.distinct:
                    raise ToolError("replay of %s consumed %d cases but TLC found %d distinct states"
                                    % (res["flavour"], res["states"], r.distinct))
                replayed += res["ops"]
                evals += res["ops"] + res["states"]
                nontriv += res["distinct_nontrivial"]
                drift += res["drift"]
                for s in res["samples"][:2]:
                    if len(rep.cov["samples"]) < 8:
                        rep.cov["samples"].append(s)
                if res["flavour"].startswith("sync") and res["lock_points_seen"] == 0:
                    raise ToolError("lock-point hook saw no acquisition on %s: hook not live" % res["flavour"])
                mism = res["violations"]
                if res["n_violations"] > len(mism):
                    rep.notes.append("%s: %d mismatching cases, first %d adjudicated" % (res["flavour"], res["n_violations"], len(mism)))
                for m, reasons in adjudicate(mism, directed, fam["nodes"], fam["vals"], "%s/adj_%s_%s" % (tag, name, res["flavour"])):
                    mine = [x for x in reasons if x in REASONS[pid]]
                    if not reasons:
                        # TLC accepts the observed step although it differs from the emitted outcomes: model drift
                        drift += 1
                        continue
                    if not mine:
                        continue
                    op = m.get("op")
                    obs = m.get("observed", {})
                    rep.violation(signature(res["flavour"], op, obs.get("res"), mine),
                                  "%s: from state out=%s inn=%s, %s via %s handle gave %s; TLC: %s"
                                  % (res["flavour"], json.dumps(m["pre"]["out"]), json.dumps(m["pre"]["inn"]), op,
                                     m.get("via"), json.dumps(obs)[:200], ", ".join(mine)),
                                  dict(m, source="tlc-generated-case", tlc_reasons=reasons))
    hist, events, recs = validate_traces(flavours, consts, seed, tag + "/traces", rep, pid)
    apalache = "not run in the quick tier (about 8 min)"
    if tier == "thorough":
        apalache = apalache_inductive(tag)
    rep.cov.update({
        "states": states, "transitions": transitions,
        "traces_validated_against_impl": replayed + hist,
        "tlc_cases_replayed_into_impl": replayed, "recorded_histories_validated_by_tlc": hist,
        "recorded_events_validated_by_tlc": events,
        "evaluations": evals + events, "distinct_nontrivial": nontriv,
        "rule": "every (abstract state, operation) pair TLC emits is executed per flavour; non-trivial = the pre-state "
                "has at least one edge or the call changed the state; distinct by hash of (pre-state, operation), summed over flavours",
        "exhaustive": True, "model_drift": drift, "models": cov_models, "flavours": flavours,
        "recorders": recs,
        "unbounded_count_abstraction": {"spec": "spec/apalache/AdjCount.tla", "linked_by": "RefinesAdjCount (TLC, action property of MC_Adjacency)",
                                        "apalache_inductive_invariant": apalache},
    })
    rep.assumptions += [
        "exhaustive within the stated constants (small-scope), seeded random histories beyond",
        "project(): iter_out/iter_in (directed) and iter + cfg-only split observer (undirected) show the whole abstract state",
        "trusted: TLC, Json/IOUtils community modules, rustc, serde_json",
    ]
    import shutil
    shutil.rmtree(os.path.join(vlib.WORK, tag), ignore_errors=True)
    return rep.finish()


CHECKS = {"C01": run, "C02": run, "C03": run}
