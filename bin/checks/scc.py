"""C11: Graph::scc() of the directed containers.

Scc.tla models the two passes over EVERY container iteration order pi for
every small graph; TLC checks SccCorrect (the result is the SCC partition for
all pi) and emits the unique expected partition per graph. The harness runs
scc() on several fresh containers / insertion orders per graph (stage 1: set
equality), TLC judges disagreements and random larger graphs (IsSccPartition).
"""
import json
import os
import shutil

import vlib
from vlib import Reporter, ToolError, log
from . import search as S

FLAVOURS = ["digraph", "sync_digraph"]
TIERS = {
    "quick": dict(families=[dict(nodes=3, max_edges=4), dict(nodes=4, max_edges=4)], instances=12,
                  graphs=60, gnodes=16, rinst=3, extra=40),
    "thorough": dict(families=[dict(nodes=3, max_edges=5), dict(nodes=4, max_edges=5)], instances=24,
                     graphs=70, gnodes=30, rinst=4, extra=200),
}


def signature(fl, reasons, comps, expected):
    kind = "split" if comps is not None and expected is not None and len(comps) > len(expected) else \
           "merged" if comps is not None and expected is not None and len(comps) < len(expected) else "other"
    return "%s:scc:%s:%s" % (fl, kind, "+".join(sorted(reasons)))


def run(pid, tier, seed):
    rep = Reporter(pid, tier, seed)
    T = TIERS[tier]
    tag = "%s_%s_%d" % (pid, tier, os.getpid())
    states = transitions = cases = execs = nontriv = drift = 0
    models = []
    order_dep = 0
    for fi, fam in enumerate(T["families"]):
        c = {"Nodes": set(range(1, fam["nodes"] + 1)), "Vals": {1}, "Directed": True, "MaxEdges": fam["max_edges"]}
        cfg = vlib.cfg_text(c, spec="SSpec", invariants=["SccCorrect", "SccIsTheSCCs"])
        r = vlib.run_tlc("Scc", cfg, "%s/mc_f%d" % (tag, fi), workers=16, timeout=6000, collect_prints=False, heap="24g")
        if r.violation or not r.ok:
            raise ToolError("design model Scc: %s (%s)" % (r.violation, r.out_file))
        log("%s: model f%d: %d distinct states (all container orders), %.1fs" % (pid, fi, r.distinct, r.wall))
        states += r.distinct
        transitions += r.generated
        models.append({"model": "Scc", "Nodes": fam["nodes"], "MaxEdges": fam["max_edges"], "container_orders": "all permutations",
                       "distinct_states": r.distinct, "states_generated": r.generated, "invariants": ["SccCorrect", "SccIsTheSCCs"]})
        d = os.path.join(vlib.WORK, tag)
        jobs = [("replay-scc", {"flavour": f, "cases": r.out_file, "instances": T["instances"], "seed": seed},
                 os.path.join(d, "replay_f%d_%s.json" % (fi, f))) for f in FLAVOURS]
        for res in vlib.harness_parallel(jobs, timeout=3000):
            if res["cases"] == 0:
                raise ToolError("no scc cases emitted")
            cases += res["cases"]
            execs += res["executions"]
            nontriv += res["distinct_nontrivial"]
            order_dep += res["graphs_with_several_distinct_result_orders"]
            for s in res["samples"][:2]:
                if len(rep.cov["samples"]) < 6:
                    rep.cov["samples"].append(s)
            mism = res["mismatches"]
            if res["n_mismatch"] > len(mism):
                rep.notes.append("%s: %d disagreements, first %d adjudicated" % (res["flavour"], res["n_mismatch"], len(mism)))
            if mism:
                tr = os.path.join(d, "adj_f%d_%s.ndjson" % (fi, res["flavour"]))
                with open(tr, "w") as f:
                    for m in mism:
                        f.write(json.dumps({"ev": "graph", "out": m["out"], "inn": m["inn"], "nval": [0] * fam["nodes"], "n": fam["nodes"]}) + "\n")
                        f.write(json.dumps({"ev": "scc", "rt": m["rt"], "comps": m["comps"] or []}) + "\n")
                verd = S.tlc_verdicts(tr, True, fam["nodes"], 1, "%s/adjtlc_f%d_%s" % (tag, fi, res["flavour"]))
                for i, m in enumerate(mism):
                    reasons = verd.get(2 * i + 2, [])
                    if not reasons:
                        drift += 1
                        continue
                    rep.violation(signature(res["flavour"], reasons, m["comps"], m["expected"]),
                                  "%s: scc() of out=%s (members inserted in order %s) returned %s, expected partition %s; TLC: %s"
                                  % (res["flavour"], json.dumps(m["out"]), m["insertion_order"], json.dumps(m["comps"]) if m["comps"] is not None else m["error"],
                                     json.dumps(m["expected"]), ", ".join(reasons)),
                                  dict(m, source="tlc-generated-case", tlc_reasons=reasons))
    cov = vlib.action_coverage("Scc", vlib.cfg_text({"Nodes": {1, 2, 3}, "Vals": {1}, "Directed": True, "MaxEdges": 2}, spec="SSpec",
                                                     invariants=["SccCorrect", "SccIsTheSCCs"]), "%s/cov" % tag)
    # random larger graphs
    d = os.path.join(vlib.WORK, tag, "rec")
    os.makedirs(d, exist_ok=True)
    pad = T["gnodes"]
    jobs = [("record-scc", dict(flavour=f, seed=seed, graphs=T["graphs"], nodes=pad, pad=pad, instances=T["rinst"], extra=T["extra"],
                                trace=os.path.join(d, "trace_%s.ndjson" % f)), os.path.join(d, "rec_%s.json" % f)) for f in FLAVOURS]
    recs = vlib.harness_parallel(jobs)
    events = 0
    for fl in FLAVOURS:
        tr = os.path.join(d, "trace_%s.ndjson" % fl)
        verd = S.tlc_verdicts(tr, True, pad, 1, "%s/tv_%s" % (tag, fl))
        lines = [x for x in open(tr).read().split("\n") if x.strip()]
        events += len(lines)
        rep.cov["samples"].append({"recorded": fl, "events": [json.loads(lines[0]), json.loads(lines[1])]})
        for ln, reasons in sorted(verd.items()):
            ev = json.loads(lines[ln - 1])
            g = next(json.loads(lines[k]) for k in range(ln - 1, -1, -1) if json.loads(lines[k])["ev"] == "graph")
            rep.violation(signature(fl, reasons, None, None),
                          "%s: scc() on a random %d-node graph returned %s; TLC: %s" % (fl, g["n"], json.dumps(ev.get("comps"))[:200], ", ".join(reasons)),
                          {"source": "recorded", "flavour": fl, "graph": g, "event": ev, "tlc_reasons": reasons})
    rep.cov.update({
        "states": states, "transitions": transitions, "traces_validated_against_impl": cases + sum(x["graphs"] for x in recs),
        "tlc_cases_replayed_into_impl": cases, "implementation_executions_compared": execs,
        "recorded_events_validated_by_tlc": events,
        "random_graph_executions (partitions not seen before for that graph are logged and judged by TLC)": sum(x.get("executions", 0) for x in recs),
        "evaluations": execs + events, "distinct_nontrivial": nontriv,
        "rule": "one execution = scc() on one fresh container (own hash state) holding one graph inserted in one order; "
                "non-trivial = graph has an edge; distinct by (graph, insertion order)",
        "exhaustive": True, "model_drift": drift, "models": models, "flavours": FLAVOURS, "action_coverage_small_model": cov,
        "graphs_where_real_containers_returned_components_in_different_orders": order_dep,
    })
    rep.assumptions += ["the model explores every container iteration order; the real hash order cannot be steered, it is varied by fresh ahash states and insertion orders",
                        "members' neighbours are members (precondition of the property)"]
    shutil.rmtree(os.path.join(vlib.WORK, tag), ignore_errors=True)
    return rep.finish()


CHECKS = {"C11": run}
