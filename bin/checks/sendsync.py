"""C16: thread-sharing of nodes is exactly as safe as their payload types.

The 'implementation step' is the compiler's trait solver.  A generated probe
crate (bin/gen_sendsync.py), compiled against the working tree, prints for every
flavour x {Node, Edge, Graph} x each of the 4^3 capability assignments of
(K, N, E) (witness payload types: Send+Sync / Send-only / Sync-only / neither)
whether the type is Send and whether it is Sync, and contains generic positive
obligations (for ALL K, N, E that are Send + Sync) that must type-check.
TLC (SendSync.tla) checks DerivedSatisfiesC16 on the structural derivation
(greatest fixed point of the auto-trait rules over the recursive node type,
explicit unsafe impls as data) and gives a verdict for every observed table
row against the property layer (Allowed); a row that is allowed but differs
from the derivation is model drift.
"""
import json
import os
import subprocess
import sys

import vlib
from vlib import Reporter, ToolError, log

PROBE = os.path.join(vlib.VERIF, "probe", "sendsync")


def run(pid, tier, seed):
    rep = Reporter(pid, tier, seed)
    gen = subprocess.run([sys.executable, os.path.join(vlib.VERIF, "bin", "gen_sendsync.py")], stdout=subprocess.PIPE, stderr=subprocess.STDOUT, text=True)
    if gen.returncode != 0:
        raise ToolError("probe generation failed: " + gen.stdout)
    env = dict(os.environ, CARGO_NET_OFFLINE="true")
    p = subprocess.run(["cargo", "run", "--offline", "--quiet"], cwd=PROBE, env=env, stdout=subprocess.PIPE, stderr=subprocess.PIPE, text=True, timeout=1800)
    tag = "%s_%s_%d" % (pid, tier, os.getpid())
    d = os.path.join(vlib.WORK, tag)
    os.makedirs(d, exist_ok=True)
    if p.returncode != 0:
        err = "\n".join(l for l in p.stderr.splitlines() if not l.startswith("warning"))
        if "positive_sync" in err or "is_send" in err or "is_sync" in err:
            rep.violation("positive-obligation", "a sync type is not Send/Sync although K, N, E are Send + Sync for ALL such types: the generic positive "
                          "obligation does not type-check: " + err[-600:], {"source": "probe build", "compiler_output": err[-3000:]})
            rep.cov.update({"evaluations": 1, "distinct_nontrivial": 2, "rule": "probe did not compile", "explanation": "generic positive obligation failed"})
            return rep.finish()
        raise ToolError("probe crate does not build: " + err[-3000:])
    rows = [l for l in p.stdout.splitlines() if l.startswith("{")]
    expected = int(open(os.path.join(PROBE, "NROWS")).read())
    if len(rows) != expected or expected < 4 * 3 * 64 + 100:
        raise ToolError("probe printed %d rows, expected %d" % (len(rows), expected))
    tr = os.path.join(d, "table.ndjson")
    open(tr, "w").write("\n".join(rows) + "\n")
    cfg = "SPECIFICATION TSpec\nINVARIANTS Consumed ModelOK\nPOSTCONDITION AllConsumed\nCHECK_DEADLOCK FALSE\n"
    r = vlib.run_tlc("SendSync", cfg, tag + "/tlc", workers=1, timeout=1800, env={"TRACE": tr}, deque=True, heap="4g")
    if not r.ok or r.depth != len(rows) + 1:
        raise ToolError("SendSync.tla: %s (%s)" % (r.violation, r.out_file))
    verd = dict(vlib.parse_tla_tuple_prints(r.prints, "REJECT"))
    drift = 0
    for ln, reasons in sorted(verd.items()):
        ev = json.loads(rows[ln - 1])
        real = [x for x in reasons if not x.startswith("drift:")]
        if not real:
            drift += 1
            continue
        rep.violation("%s:%s:%s" % (ev["fl"], ev["ty"], "+".join(real)),
                      "%s::%s<K: %s, N: %s, E: %s> is Send=%s Sync=%s according to the compiler: %s"
                      % (ev["fl"], ev["ty"], ev["k"], ev["n"], ev["e"], ev["send"], ev["sync"], ", ".join(real)),
                      {"source": "compiler probe", "row": ev, "tlc_reasons": reasons,
                       "witnesses": {"both": "newtype of ()", "send": "Cell<u8> inside", "sync": "PhantomData<MutexGuard<'static,u8>>", "none": "PhantomData<*const u8>"}})
    rep.cov.update({"states": r.distinct, "transitions": r.generated, "traces_validated_against_impl": len(rows),
                    "evaluations": len(rows), "distinct_nontrivial": len([x for x in rows if '"k":"both","n":"both","e":"both"' not in x]),
                    "rule": "one row = (flavour, type, capability assignment of K,N,E); non-trivial = at least one parameter is not Send+Sync "
                            "(the 'only if' direction); all 64 assignments x 3 types x 4 flavours, plus the carrier rows", "exhaustive": True, "model_drift": drift,
                    "samples": [json.loads(rows[k]) for k in (200, 201, 255, 600, 790, 800)],
                    "carrier_rows": len(rows) - 768,
                    "carriers": "search builders Bfs/Dfs/Pfs/Order (never Send/Sync: type-erased callback), iterators and Path (only if all payloads are Send+Sync), "
                                "obtained through the public API and probed at value level, for 10 capability assignments per sync flavour",
                    "generic_positive_obligations": "positive_sync_digraph / positive_sync_ungraph type-check for all K,N,E: Send+Sync",
                    "model_invariant": "DerivedSatisfiesC16 over all 4 x 3 x 64 combinations"})
    rep.assumptions += ["parametricity: auto traits and where-clauses can depend on K, N, E only through their own Send / Sync, so 4 witnesses per parameter are exhaustive",
                        "not covered: an impl written for one specific concrete payload type"]
    import shutil
    shutil.rmtree(d, ignore_errors=True)
    return rep.finish()


CHECKS = {"C16": run}
