"""C20: mutation from inside edge loops and traversal callbacks.

spec -> impl : MC_Cursor enumerates (graph, loop kind {iter_out/iter_in/iter,
  bfs, dfs, pfs, pre, post} x direction x cycle mode, script of operations
  placed at every yield index); TLC checks LastYieldExists / Bounded /
  MirrorKept and emits yields + final graph; the harness runs the same script
  from inside the real loop body / for_each / filter closure and compares
  yields, final state and absence of failures (stage 1).
stage 2      : disagreeing runs are re-run with per-step logging and judged by
  TLC (TraceCursor): every yielded edge exists at that moment, the graph changes
  only through script operations allowed by the Adjacency contract, no panic /
  deadlock (lock-point hook) / non-termination (yield cap).
impl -> spec : seeded random 6-node graphs with scripts of up to 6 operations
  (also nested searches, observers, container calls) logged step by step and
  judged by TraceCursor.
"""
import concurrent.futures as cf
import json
import os
import shutil

import vlib
from vlib import Reporter, ToolError, log

ALL4 = ["digraph", "sync_digraph", "ungraph", "sync_ungraph"]
LOOPS = ["iter", "bfs", "dfs", "pfsmin", "pre", "post"]
TIERS = {
    "quick": dict(nodes=3, vals=1, max_edges=2, max_script=1, max_at=3, runs=400, rnodes=6),
    "thorough": dict(nodes=3, vals=1, max_edges=3, max_script=1, max_at=4, runs=5000, rnodes=6,
                     extra=dict(nodes=3, vals=1, max_edges=2, max_script=2, max_at=3)),
}


def tla_strs(xs):
    return "{" + ", ".join('"%s"' % x for x in xs) + "}"


def verdicts(trace, directed, nodes, tag):
    cfg = vlib.cfg_text({"Nodes": set(range(1, nodes + 1)), "Vals": {1, 2, 3}, "Directed": directed},
                        spec="TSpec", invariants=["Consumed"], postcondition="AllConsumed")
    r = vlib.run_tlc("TraceCursor", cfg, tag, workers=1, timeout=3000, env={"TRACE": trace}, deque=True, heap="6g")
    n = sum(1 for x in open(trace) if x.strip())
    if not r.ok or r.depth != n + 1:
        raise ToolError("TraceCursor did not consume %s: depth %d of %d; %s (%s)" % (trace, r.depth, n, r.violation, r.out_file))
    return dict(vlib.parse_tla_tuple_prints(r.prints, "REJECT"))


def signature(fl, loop, script, reasons):
    ops = "+".join(sorted({s[1][0] for s in script})) if script else "none"
    return "%s:%s:%s:%s:%s" % (fl, loop["kind"], loop["dir"], ops, "+".join(sorted(set(reasons))))


def run(pid, tier, seed):
    rep = Reporter(pid, tier, seed)
    T = TIERS[tier]
    tag = "%s_%s_%d" % (pid, tier, os.getpid())
    d = os.path.join(vlib.WORK, tag)
    os.makedirs(d, exist_ok=True)
    states = transitions = cases = execs = nontriv = drift = 0
    models = []
    fams = [T] + ([T["extra"]] if "extra" in T else [])
    for fi, fam in enumerate(fams):
        for directed in (True, False):
            c = {"Nodes": set(range(1, fam["nodes"] + 1)), "Vals": set(range(1, fam["vals"] + 1)), "Directed": directed,
                 "MaxEdges": fam["max_edges"], "MaxScript": fam["max_script"], "MaxAt": fam["max_at"],
                 "LoopKinds": tla_strs(LOOPS), "QDirs": tla_strs(["out", "in"])}
            cfg = vlib.cfg_text(c, spec="CSpecEmit", invariants=["LastYieldExists", "Bounded", "MirrorKept"])
            name = "%s_f%d" % ("dir" if directed else "und", fi)
            r = vlib.run_tlc("MC_Cursor", cfg, "%s/mc_%s" % (tag, name), workers=16, timeout=6000, collect_prints=False, heap="24g")
            if r.violation or not r.ok:
                raise ToolError("design model MC_Cursor: %s (%s)" % (r.violation, r.out_file))
            log("%s: model %s: %d distinct states, %.1fs" % (pid, name, r.distinct, r.wall))
            states += r.distinct
            transitions += r.generated
            models.append({"model": "MC_Cursor", "Directed": directed, "Nodes": fam["nodes"], "MaxEdges": fam["max_edges"],
                           "MaxScript": fam["max_script"], "MaxAt": fam["max_at"], "loops": LOOPS, "distinct_states": r.distinct,
                           "invariants": ["LastYieldExists", "Bounded", "MirrorKept"]})
            fls = [f for f in ALL4 if vlib.DIRECTED[f] == directed]
            jobs = [("replay-cursor", {"flavour": f, "cases": r.out_file, "trace": os.path.join(d, "adj_%s_%s.ndjson" % (name, f))},
                     os.path.join(d, "rep_%s_%s.json" % (name, f))) for f in fls]
            for res in vlib.harness_parallel(jobs, timeout=6000):
                if res["cases"] == 0:
                    raise ToolError("no cursor cases emitted")
                if res["flavour"].startswith("sync") and res["lock_points_seen"] == 0:
                    raise ToolError("lock-point hook not live on %s" % res["flavour"])
                cases += res["cases"]
                execs += res["executions"]
                nontriv += res["distinct_nontrivial"]
                rep.cov["samples"] += res["samples"][:1]
                mism = res["mismatches"]
                if res["n_mismatch"] > len(mism):
                    rep.notes.append("%s %s: %d disagreements with the positional-cursor model, first %d adjudicated"
                                     % (res["flavour"], name, res["n_mismatch"], len(mism)))
                if mism:
                    tr = os.path.join(d, "adj_%s_%s.ndjson" % (name, res["flavour"]))
                    verd = verdicts(tr, directed, fam["nodes"], "%s/adjtlc_%s_%s" % (tag, name, res["flavour"]))
                    line = 0
                    for m in mism:
                        lo, hi = line + 1, line + m["trace_events"]
                        line = hi
                        reasons = [x for ln in range(lo, hi + 1) for x in verd.get(ln, [])]
                        if not reasons:
                            drift += 1
                            continue
                        rep.violation(signature(res["flavour"], m["loop"], m["script"], reasons),
                                      "%s: graph out=%s, loop %s (%s closure), script %s: outcome %s, yields %s; TLC: %s"
                                      % (res["flavour"], json.dumps(m["graph"]["out"]), json.dumps(m["loop"]), m["closure"], json.dumps(m["script"]),
                                         m["observed"]["outcome"][:120], json.dumps(m["observed"]["yields"])[:200], ", ".join(sorted(set(reasons)))),
                                      dict(m, source="tlc-generated-case", tlc_reasons=reasons))
    # liveness (termination once the script is exhausted), weak fairness, small constants
    lr = vlib.run_tlc("MC_Cursor", vlib.cfg_text({"Nodes": {1, 2}, "Vals": {1}, "Directed": True, "MaxEdges": 2, "MaxScript": 1, "MaxAt": 2,
                                                  "LoopKinds": tla_strs(LOOPS), "QDirs": tla_strs(["out", "in"])},
                                                 spec="CSpecFair", properties=["EveryLoopEnds"]), "%s/live" % tag, workers=4, timeout=3000, collect_prints=False)
    if lr.violation or not lr.ok:
        raise ToolError("liveness EveryLoopEnds of MC_Cursor fails: %s (%s)" % (lr.violation, lr.out_file))
    cov_live = {"property": "EveryLoopEnds == (phase = run) ~> (phase = end) under WF", "states": lr.distinct, "result": "holds"}
    cov = vlib.action_coverage("MC_Cursor", vlib.cfg_text({"Nodes": {1, 2}, "Vals": {1}, "Directed": True, "MaxEdges": 2, "MaxScript": 1, "MaxAt": 2,
                                                            "LoopKinds": tla_strs(LOOPS), "QDirs": tla_strs(["out", "in"])},
                                                           spec="CSpecEmit", invariants=["LastYieldExists", "Bounded", "MirrorKept"]), "%s/cov" % tag)
    # random larger runs
    jobs = [("record-cursor", {"flavour": f, "runs": T["runs"], "nodes": T["rnodes"], "seed": seed, "trace": os.path.join(d, "rec_%s.ndjson" % f)},
             os.path.join(d, "rec_%s.json" % f)) for f in ALL4]
    recs = vlib.harness_parallel(jobs, timeout=6000)
    events = 0

    def one(fl):
        tr = os.path.join(d, "rec_%s.ndjson" % fl)
        return fl, tr, verdicts(tr, vlib.DIRECTED[fl], T["rnodes"], "%s/tv_%s" % (tag, fl))
    with cf.ThreadPoolExecutor(max_workers=4) as ex:
        for fl, tr, verd in ex.map(one, ALL4):
            lines = [x for x in open(tr).read().split("\n") if x.strip()]
            events += len(lines)
            rep.cov["samples"].append({"flavour": fl, "recorded_run": [json.loads(x) for x in lines[:4]]})
            for ln, reasons in sorted(verd.items()):
                ev = json.loads(lines[ln - 1])
                start = next(json.loads(lines[k]) for k in range(ln - 1, -1, -1) if json.loads(lines[k])["ev"] == "cstart")
                rep.violation(signature(fl, start["loop"], start["script"], reasons),
                              "%s: random run loop %s script %s: event %s rejected by TLC: %s"
                              % (fl, json.dumps(start["loop"]), json.dumps(start["script"])[:200], json.dumps(ev)[:200], ", ".join(reasons)),
                              {"source": "recorded-run", "flavour": fl, "start": start, "event": ev, "tlc_reasons": reasons})
    rep.cov.update({"states": states, "transitions": transitions, "traces_validated_against_impl": cases + sum(x["runs"] for x in recs),
                    "tlc_runs_replayed_into_impl": cases, "implementation_executions_compared": execs,
                    "recorded_events_validated_by_tlc": events, "evaluations": execs + events, "distinct_nontrivial": nontriv,
                    "rule": "one execution = (graph, loop, script, closure kind) on one flavour; non-trivial = at least one script entry actually ran "
                            "inside the loop; distinct by hash of the case", "exhaustive": True, "model_drift": drift, "models": models,
                    "flavours": ALL4, "recorders": recs, "action_coverage_small_model": cov, "liveness": cov_live})
    rep.assumptions += ["script operations run from the loop body / for_each / filter closure of the running loop, on the same and on other nodes",
                        "non-termination = more than 2000 yields (far above any finite legitimate count for <= 6 nodes and <= 6 script entries)",
                        "'query' entries = all node observers, a nested bfs and a nested transposed dfs cycle search, container get/contains/index/insert/remove/to_vec/to_dot"]
    shutil.rmtree(d, ignore_errors=True)
    return rep.finish()


CHECKS = {"C20": run}
