"""C19: edges never own nodes (no leaks, no premature release).

MC_Ownership enumerates every state (graph with weak edges, program handles,
container membership, live result objects) and every enabled action
(connect, clone / drop a handle, insert / drop the container, take / drop an
edge list, an ordering, a path); TLC checks ResultsKeepAlive, EdgesOwnNothing
and AllDroppedAllReleased and emits, per state and per action, the set of
released objects the specification allows (an interval for path results). The
harness builds each state with drop-counting payloads, performs the action,
dereferences every node mentioned by a live result, compares the released set
(membership in the emitted interval), then drops everything and requires every
payload instance to be gone exactly once.
"""
import json
import os
import shutil

import vlib
from vlib import Reporter, ToolError, log

ALL4 = ["digraph", "sync_digraph", "ungraph", "sync_ungraph"]
TIERS = {
    "quick": dict(nodes=3, max_edges=2, max_h=2, max_res=1, clone=[1], insert=[1, 2]),
    "thorough": dict(nodes=3, max_edges=3, max_h=2, max_res=1, clone=[1, 2], insert=[1, 2, 3]),
}
INVS = ["ResultsKeepAlive", "EdgesOwnNothing", "AllDroppedAllReleased"]


def run(pid, tier, seed):
    rep = Reporter(pid, tier, seed)
    T = TIERS[tier]
    tag = "%s_%s_%d" % (pid, tier, os.getpid())
    d = os.path.join(vlib.WORK, tag)
    os.makedirs(d, exist_ok=True)
    states = transitions = acts = nontriv = derefs = 0
    models = []
    for directed in (True, False):
        c = {"Nodes": set(range(1, T["nodes"] + 1)), "Vals": {1}, "Directed": directed, "MaxH": T["max_h"], "MaxRes": T["max_res"],
             "MaxEdges": T["max_edges"], "CloneObjs": set(T["clone"]), "InsertObjs": set(T["insert"])}
        r = vlib.run_tlc("MC_Ownership", vlib.cfg_text(c, spec="OSpec", invariants=INVS), "%s/mc_%s" % (tag, "dir" if directed else "und"),
                         workers=16, timeout=6000, collect_prints=False, heap="16g")
        if r.violation or not r.ok:
            raise ToolError("design model MC_Ownership: %s (%s)" % (r.violation, r.out_file))
        log("%s: model Directed=%s: %d distinct states, %.1fs" % (pid, directed, r.distinct, r.wall))
        states += r.distinct
        transitions += r.generated
        models.append({"model": "MC_Ownership", "Directed": directed, "Nodes": T["nodes"], "MaxEdges": T["max_edges"], "MaxH": T["max_h"],
                       "MaxRes": T["max_res"], "distinct_states": r.distinct, "invariants": INVS})
        fls = [f for f in ALL4 if vlib.DIRECTED[f] == directed]
        jobs = [("replay-own", {"flavour": f, "cases": r.out_file}, os.path.join(d, "rep_%s.json" % f)) for f in fls]
        for res in vlib.harness_parallel(jobs, timeout=6000):
            if res["states"] != r.distinct:
                raise ToolError("replay consumed %d cases, TLC found %d states" % (res["states"], r.distinct))
            acts += res["actions"] + res["states"]
            nontriv += res["distinct_nontrivial"]
            derefs += res["result_node_dereferences"]
            rep.cov["samples"] += [dict(s, flavour=res["flavour"]) for s in res["samples"][:2]]
            if res["n_mismatch"] > len(res["mismatches"]):
                rep.notes.append("%s: %d violating cases, first %d reported" % (res["flavour"], res["n_mismatch"], len(res["mismatches"])))
            for m in res["mismatches"]:
                act = m.get("action", ["state"])
                kind = m["kind"]
                if kind in ("state", "action"):
                    obs = set(m["observed_released"])
                    why = "released-too-early" if not obs <= set(m["released_max"]) else \
                          "not-released (leak)" if not set(m["released_min"]) <= obs else "double-release"
                else:
                    why = kind
                rep.violation("%s:%s:%s" % (res["flavour"], act[0], why),
                              "%s: state %s, action %s: released %s, specification allows [%s .. %s]: %s%s"
                              % (res["flavour"], json.dumps(m["state"]), act, m.get("observed_released"), m.get("released_min"),
                                 m.get("released_max"), why, (" " + str(m.get("error"))) if m.get("error") else ""),
                              dict(m, flavour=res["flavour"], source="tlc-generated-case"))
    # impl -> spec: seeded random histories over 6 objects judged step by step by TLC (TraceOwnership)
    import concurrent.futures as cf
    HN = dict(quick=(60, 80), thorough=(1500, 120))[tier]
    jobs = [("record-own", {"flavour": f, "nodes": 6, "histories": HN[0], "steps": HN[1], "seed": seed, "trace": os.path.join(d, "hist_%s.ndjson" % f)},
             os.path.join(d, "hist_%s.json" % f)) for f in ALL4]
    recs = vlib.harness_parallel(jobs, timeout=6000)
    events = 0

    def one(fl):
        tr = os.path.join(d, "hist_%s.ndjson" % fl)
        c = {"Nodes": {1, 2, 3, 4, 5, 6}, "Vals": {1}, "Directed": vlib.DIRECTED[fl], "MaxH": 3, "MaxRes": 2,
             "CloneObjs": {1, 2, 3, 4, 5, 6}, "InsertObjs": {1, 2, 3, 4, 5, 6}}
        r = vlib.run_tlc("TraceOwnership", vlib.cfg_text(c, spec="TSpec", invariants=["Consumed"], postcondition="AllConsumed"),
                         "%s/tv_%s" % (tag, fl), workers=1, timeout=3000, env={"TRACE": tr}, deque=True, heap="6g")
        n = sum(1 for x in open(tr) if x.strip())
        if not r.ok or r.depth != n + 1:
            raise ToolError("TraceOwnership did not consume %s: %s (%s)" % (tr, r.violation, r.out_file))
        return fl, tr, dict(vlib.parse_tla_tuple_prints(r.prints, "REJECT"))
    with cf.ThreadPoolExecutor(max_workers=4) as ex:
        for fl, tr, verd in ex.map(one, ALL4):
            lines = [x for x in open(tr).read().split("\n") if x.strip()]
            events += len(lines)
            rep.cov["samples"].append({"flavour": fl, "recorded_history_excerpt": [json.loads(x) for x in lines[1:5]]})
            resets = [i + 1 for i, x in enumerate(lines) if '"reset"' in x]
            tainted = set()   # histories (by their reset line) in which TLC already rejected a step: model and code have diverged
            for ln, reasons in sorted(verd.items()):
                hist_id = max([r for r in resets if r <= ln] or [0])
                real = [x for x in reasons if not x.startswith("driver-error")]
                if not real:
                    if hist_id in tainted:
                        continue      # consequence of the earlier rejected step of the same history
                    raise ToolError("the random driver issued an action the model does not enable (%s line %d): %s" % (tr, ln, lines[ln - 1]))
                tainted.add(hist_id)
                reasons = real
                ev = json.loads(lines[ln - 1])
                k = max(1, ln - 25)
                rep.violation("%s:%s:%s" % (fl, (ev.get("a") or ["dropall"])[0], "+".join(sorted(reasons))),
                              "%s: random history, event %d %s: released %s: %s" % (fl, ln, ev.get("a", "dropall"), ev.get("released"), ", ".join(reasons)),
                              {"source": "recorded-history", "flavour": fl, "event_no": ln, "event": ev, "history_before": [json.loads(x) for x in lines[k - 1:ln - 1]],
                               "tlc_reasons": reasons})
    rep.cov["recorded_events_validated_by_tlc"] = events
    rep.cov["recorders"] = recs
    rep.cov.update({"states": states, "transitions": transitions, "traces_validated_against_impl": acts + sum(x["histories"] for x in recs),
                    "tlc_cases_replayed_into_impl": acts, "evaluations": acts, "distinct_nontrivial": nontriv,
                    "result_node_dereferences": derefs,
                    "rule": "one case = (state, action) built from scratch with drop-counting payloads on one flavour; every case distinct; "
                            "non-trivial = all actions except a plain clone", "exhaustive": True, "models": models, "flavours": ALL4})
    rep.assumptions += ["'live nodes' precondition: list-reading operations only while no live node has an entry pointing at a released node",
                        "released(o) = every payload instance of object o has been dropped (instances counted on creation, clone and drop)",
                        "a Path is only required to keep alive its endpoints at least and nodes reachable from its root at most"]
    shutil.rmtree(d, ignore_errors=True)
    return rep.finish()


CHECKS = {"C19": run}
