"""C15: the sync flavours are drop-in replacements in single-threaded code.

(a) impl -> spec: seeded whole-API programs (container calls, edge operations,
    all searches / orderings with all options, node observers, comparisons,
    scc, serde, DOT) are executed side by side on digraph + sync_digraph and on
    ungraph + sync_ungraph; every event carries both results and both states;
    TLC (TracePaired) requires r1 = r2 and s1 = s2 on every event in addition
    to the normal match of the step against Container / Adjacency.
(b) spec -> impl: the exhaustive case sets TLC emits from MC_Adjacency,
    MC_Search (all kinds, both directions, path and cycle mode) and
    MC_Container are replayed on both members of each pair; the specification
    has no flavour parameter other than Directed, so both members are compared
    with the same expected outcome, and any case on which the two members
    disagree with each other is a violation.
"""
import concurrent.futures as cf
import json
import os
import shutil

import vlib
from vlib import Reporter, ToolError, log
from . import adjacency as A
from . import search as S

PAIRS = {"directed": ("digraph", "sync_digraph"), "undirected": ("ungraph", "sync_ungraph")}
TIERS = {
    "quick": dict(programs=50, calls=200, adj=dict(nodes=3, vals=2, max_edges=3),
                  search=dict(nodes=3, vals=1, max_edges=3, rej="single", nvals=[0]),
                  cont=dict(nk=3, nd=1, vals=1, max_edges=2)),
    "thorough": dict(programs=300, calls=300, adj=dict(nodes=3, vals=2, max_edges=3),
                     search=dict(nodes=3, vals=1, max_edges=3, rej="single", nvals=[0, 1]),
                     cont=dict(nk=3, nd=1, vals=2, max_edges=3)),
}


def strip(m):
    return json.dumps({k: v for k, v in m.items() if k != "flavour"}, sort_keys=True)


def run(pid, tier, seed):
    rep = Reporter(pid, tier, seed)
    T = TIERS[tier]
    tag = "%s_%s_%d" % (pid, tier, os.getpid())
    d = os.path.join(vlib.WORK, tag)
    os.makedirs(d, exist_ok=True)
    states = transitions = compared = nontriv = 0
    models = []
    # (b) enumerated cases on both members of each pair
    for pname, (plain, sync) in PAIRS.items():
        directed = pname == "directed"
        runs = []
        r = A.model_and_cases(directed, T["adj"], "%s/adj_%s" % (tag, pname), 16)
        runs.append(("replay-adj", r, {"max-violations": 2000}, "MC_Adjacency"))
        conf = dict(kinds=S.ALLK, dirs=["out", "in"], cyc=[False, True])
        r2 = S.model(directed, T["search"], conf, "%s/search_%s" % (tag, pname), 16)
        runs.append(("replay-search", r2, {"max-violations": 2000}, "MC_Search"))
        c = {"Nodes": set(range(1, T["cont"]["nk"] + 1)), "Vals": set(range(1, T["cont"]["vals"] + 1)), "Directed": directed,
             "NK": T["cont"]["nk"], "ND": T["cont"]["nd"], "MaxEdges": T["cont"]["max_edges"]}
        r3 = vlib.run_tlc("MC_Container", vlib.cfg_text(c, spec="CSpec", invariants=["MapLaws"]), "%s/cont_%s" % (tag, pname),
                          workers=8, timeout=3000, collect_prints=False)
        if not r3.ok:
            raise ToolError("MC_Container failed: %s" % r3.violation)
        runs.append(("replay-container", r3, {"nk": T["cont"]["nk"], "nd": T["cont"]["nd"], "max-violations": 2000}, "MC_Container"))
        for cmd, rr, extra, mname in runs:
            states += rr.distinct
            transitions += rr.generated
            models.append({"model": mname, "Directed": directed, "distinct_states": rr.distinct})
            jobs = [(cmd, dict({"flavour": f, "cases": rr.out_file}, **extra), os.path.join(d, "%s_%s_%s.json" % (cmd, pname, f))) for f in (plain, sync)]
            res = vlib.harness_parallel(jobs, timeout=6000)
            a, b = res[0], res[1]
            key = "violations" if cmd == "replay-adj" else "mismatches"
            n = a.get("ops") or a.get("executions") or 0
            compared += n
            nontriv += a.get("distinct_nontrivial", 0)
            ma = {strip(m) for m in a[key]}
            mb = {strip(m) for m in b[key]}
            na = a.get("n_violations", a.get("n_mismatch", 0))
            nb = b.get("n_violations", b.get("n_mismatch", 0))
            for only, who, other in ((ma - mb, plain, sync), (mb - ma, sync, plain)):
                for m in sorted(only)[:20]:
                    mm = json.loads(m)
                    rep.violation("%s:%s:%s" % (pname, mname, (mm.get("op") or [mm.get("kind", "?")])[0] if isinstance(mm.get("op"), list) else mm.get("kind")),
                                  "%s behaves differently from %s on a TLC-generated %s case: %s" % (who, other, mname, m[:400]),
                                  {"source": "tlc-generated-case", "model": mname, "differs_on": who, "case": mm})
            if na != nb and not (ma ^ mb):
                rep.violation("%s:%s:count" % (pname, mname), "%s and %s deviate from the specification on different numbers of %s cases (%d vs %d)"
                              % (plain, sync, mname, na, nb), {"plain": na, "sync": nb})
        log("%s: enumerated cases compared on %s / %s" % (pid, plain, sync))
    # (a) paired whole-API programs
    jobs = [("record-paired", {"pair": p, "programs": T["programs"], "calls": T["calls"], "seed": seed, "nk": 5, "nd": 1,
                               "trace": os.path.join(d, "paired_%s.ndjson" % p)}, os.path.join(d, "paired_%s.json" % p)) for p in PAIRS]
    recs = vlib.harness_parallel(jobs, timeout=6000)
    events = 0

    def one(p):
        tr = os.path.join(d, "paired_%s.ndjson" % p)
        cfg = vlib.cfg_text({"Nodes": {1, 2, 3, 4, 5}, "Vals": {1, 2, 3}, "Directed": p == "directed", "NK": 5, "ND": 1},
                            spec="PSpec", invariants=["Consumed"], postcondition="AllConsumed")
        r = vlib.run_tlc("TracePaired", cfg, "%s/tv_%s" % (tag, p), workers=1, timeout=6000, env={"TRACE": tr}, deque=True, heap="8g")
        n = sum(1 for x in open(tr) if x.strip())
        if not r.ok or r.depth != n + 1:
            raise ToolError("TracePaired did not consume %s: %s (%s)" % (tr, r.violation, r.out_file))
        return p, tr, dict(vlib.parse_tla_tuple_prints(r.prints, "REJECT"))
    with cf.ThreadPoolExecutor(max_workers=2) as ex:
        for p, tr, verd in ex.map(one, list(PAIRS)):
            lines = [x for x in open(tr).read().split("\n") if x.strip()]
            events += len(lines)
            rep.cov["samples"].append({"pair": PAIRS[p], "events": [json.loads(lines[k]) for k in (10, 11)]})
            for ln, reasons in sorted(verd.items()):
                mine = [x for x in reasons if "differ-between" in x]
                if not mine:
                    continue
                ev = json.loads(lines[ln - 1])
                what = ev.get("query", {}).get("q") or (ev.get("op") or ["?"])[0]
                rep.violation("%s:program:%s:%s" % (p, what, "+".join(sorted(mine))),
                              "%s vs %s: call %s gave %s on the plain flavour and %s on the sync flavour"
                              % (PAIRS[p][0], PAIRS[p][1], json.dumps(ev.get("query") or ev.get("op")), ev["r1"][:200], ev["r2"][:200]),
                              {"source": "paired-program", "pair": PAIRS[p], "event_no": ln, "event": ev, "tlc_reasons": reasons})
    rep.cov.update({"states": states, "transitions": transitions, "traces_validated_against_impl": compared + sum(x["programs"] for x in recs),
                    "tlc_cases_compared_on_both_flavours": compared, "paired_events_validated_by_tlc": events,
                    "evaluations": compared + events, "distinct_nontrivial": nontriv + sum(x["distinct_nontrivial"] for x in recs),
                    "rule": "paired event = one API call executed on both members of a pair from equal states; distinct by (call, state); "
                            "enumerated cases are the (state, operation) / (graph, query) / (container state, operation) cases of the other checks",
                    "exhaustive": True, "models": models, "pairs": list(PAIRS.values()), "recorders": recs})
    rep.assumptions += ["results are compared as keys and values; listings in container (hash) order are sorted first; error texts that name "
                        "the first dangling edge in container order are reduced to 'err'",
                        "scc() is queried only on containers whose members' neighbours are members (its precondition)",
                        "API present in only one member of a pair (Graph::with_capacity, to_dot_with_attr, sizeof on sync_ungraph) is outside 'calls common to both'"]
    shutil.rmtree(d, ignore_errors=True)
    return rep.finish()


CHECKS = {"C15": run}
