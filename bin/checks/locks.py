"""C17: concurrent operations on sync nodes terminate and serialise.

model        : Locks.tla - every call is a program of lock steps exactly as the
  code takes them; MC_Locks explores every scenario (initial graph x per-thread
  call lists) x every interleaving and prints every distinct outcome with the
  verdict of the property layer (panic, poisoned lock, Linearizable, Mirror at
  quiescence).
impl         : the deterministic scheduler (harness `sched`) runs the same
  scenarios with real threads on the real RwLocks, parking every thread at
  every lock point (lock-point hook), exploring all grant sequences, detecting
  real blocking (deadlock) by probing the locks (with writer preference).
binding      : per scenario the set of outcomes of the real code must equal the
  set of outcomes of the model (both directions are reported); every real
  outcome gets its verdict from TLC - from the model run when the model has
  that outcome, otherwise from TraceLocks (same Linearizable operator).
Genuine design-level defects of the library are listed in known_findings.json
by scenario class (flavour, per-thread call kinds, failure kinds); anything
not listed is a VIOLATION.
"""
import json
import os
import shutil

import vlib
from vlib import Reporter, ToolError, log

FLAVOURS = {"sync_digraph": True, "sync_ungraph": False}
SHARDS = 8
TIERS = {
    "quick": dict(nodes=2, threads=2, max_calls=1, init_edges=1, max_exec=6000,
                  extra=[dict(nodes=2, threads=2, max_calls=1, init_edges=2, vals=[1, 2], max_exec=3000,
                              only="parallel-distinct"),   # real locks: only initial graphs with parallel edges of different values
                         dict(nodes=3, threads=3, max_calls=1, init_edges=1, max_exec=6000, rotational=True, pre_bound=2)]),
    "thorough": dict(nodes=2, threads=2, max_calls=1, init_edges=2, vals=[1, 2], max_exec=3000,
                     extra=[dict(nodes=3, threads=2, max_calls=1, init_edges=1, max_exec=1000),
                            dict(nodes=3, threads=3, max_calls=1, init_edges=1, max_exec=4000, rotational=True, pre_bound=3)]),
}


def norm_model(d):
    return {"rets": d["rets"], "final": "poisoned" if d["poisoned"] else d["final"], "deadlock": False}


def key(o):
    return json.dumps(o, sort_keys=True)


def scen_key(d):
    return json.dumps({"g0": d["g0"], "prog": d["prog"]}, sort_keys=True)


def signature(fl, prog, reasons):
    names = sorted("+".join(c[0] for c in p) for p in prog)
    return "%s:%s:%s" % (fl, "|".join(names), "+".join(sorted(set(reasons))))


def run(pid, tier, seed):
    rep = Reporter(pid, tier, seed)
    T = TIERS[tier]
    tag = "%s_%s_%d" % (pid, tier, os.getpid())
    d = os.path.join(vlib.WORK, tag)
    os.makedirs(d, exist_ok=True)
    states = transitions = 0
    scen_total = exec_total = outcomes_total = drift_real_only = drift_model_only = 0
    models = []
    recs = []
    fams = [T] + T.get("extra", [])
    for fi, fam in enumerate(fams):
        for fl, directed in FLAVOURS.items():
            c = {"Nodes": set(range(1, fam["nodes"] + 1)), "Vals": set(fam.get("vals", [1])), "Directed": directed,
                 "Threads": set(range(1, fam["threads"] + 1)), "MaxCalls": fam["max_calls"], "MaxInitEdges": fam["init_edges"],
                 "Rotational": bool(fam.get("rotational", False))}
            r = vlib.run_tlc("MC_Locks", vlib.cfg_text(c, spec="LSpec", invariants=["Progress"]), "%s/mc_%s_f%d" % (tag, fl, fi),
                             workers=16, timeout=6000, collect_prints=False, heap="24g")
            if r.violation or not r.ok:
                raise ToolError("design model MC_Locks: %s (%s)" % (r.violation, r.out_file))
            log("%s: model %s f%d: %d distinct states, %.1fs" % (pid, fl, fi, r.distinct, r.wall))
            states += r.distinct
            transitions += r.generated
            models.append({"model": "MC_Locks", "flavour": fl, "Nodes": fam["nodes"], "Threads": fam["threads"], "MaxCalls": fam["max_calls"],
                           "MaxInitEdges": fam["init_edges"], "Vals": fam.get("vals", [1]), "rotational": bool(fam.get("rotational", False)), "distinct_states": r.distinct})
            model = {}
            for o in vlib.tlc_json_lines(r.out_file):
                model.setdefault(scen_key(o), {"g0": o["g0"], "prog": o["prog"], "outs": {}})["outs"][key(norm_model(o))] = o["verdict"]
            sf = os.path.join(d, "scen_%s_f%d.ndjson" % (fl, fi))
            with open(sf, "w") as f:
                for k in sorted(model):
                    f.write(json.dumps({"g0": model[k]["g0"], "prog": model[k]["prog"]}) + "\n")
            of = os.path.join(d, "out_%s_f%d.ndjson" % (fl, fi))
            # the hook is process-global: shard the scenarios over processes
            keys = sorted(model)
            if fam.get("only") == "parallel-distinct":
                # the rest of this family differs from family 0 only in the values written on the edges
                def pd(g0):
                    return any(a[0] == b[0] and a[1] != b[1] for l in g0["out"] for i, a in enumerate(l) for b in l[i + 1:])
                keys = [k for k in keys if pd(model[k]["g0"])]
            nsh = min(SHARDS, max(1, len(keys)))
            jobs = []
            for sh in range(nsh):
                sfi = "%s.%d" % (sf, sh)
                with open(sfi, "w") as f:
                    for k in keys[sh::nsh]:
                        f.write(json.dumps({"g0": model[k]["g0"], "prog": model[k]["prog"]}) + "\n")
                so = {"flavour": fl, "scenarios": sfi, "outcomes": "%s.%d" % (of, sh), "max-executions": fam["max_exec"]}
                if fam.get("pre_bound") is not None:
                    so["preemption-bound"] = fam["pre_bound"]
                jobs.append(("sched", so,
                             os.path.join(d, "sched_%s_f%d_%d.json" % (fl, fi, sh))))
            parts = vlib.harness_parallel(jobs, timeout=10000)
            with open(of, "w") as f:
                for sh in range(nsh):
                    f.write(open("%s.%d" % (of, sh)).read())
            rec = {"flavour": fl, "scenarios": sum(x["scenarios"] for x in parts), "executions": sum(x["executions"] for x in parts),
                   "lock_points": sum(x["lock_points"] for x in parts), "scenarios_truncated": sum(x["scenarios_truncated"] for x in parts),
                   "max_schedules_in_one_scenario": max(x["max_schedules_in_one_scenario"] for x in parts), "writer_preference": True,
                   "processes": nsh}
            recs.append(rec)
            if rec["lock_points"] == 0:
                raise ToolError("the lock-point hook saw no acquisition: scheduler not bound to the code")
            scen_total += rec["scenarios"]
            exec_total += rec["executions"]
            log("%s: %s f%d: %d scenarios, %d executions on real locks" % (pid, fl, fi, rec["scenarios"], rec["executions"]))
            # compare outcome sets; collect real outcomes the model does not have for TLC
            pending = []
            for line in open(of):
                sc = json.loads(line)
                m = model[scen_key(sc)]
                seen = set()
                for oc in sc["outcomes"]:
                    o = oc["outcome"]
                    outcomes_total += 1
                    k = key(o)
                    seen.add(k)
                    if k in m["outs"]:
                        reasons = m["outs"][k]
                        if reasons:
                            rep.violation(signature(fl, sc["prog"], reasons),
                                          "%s: initial graph out=%s, threads %s: schedule %s gives returns %s final %s: %s"
                                          % (fl, json.dumps(sc["g0"]["out"]), json.dumps(sc["prog"]), oc["a_grant_sequence"],
                                             json.dumps(o["rets"]), json.dumps(o["final"])[:200], ", ".join(reasons)),
                                          {"source": "scheduler+model", "flavour": fl, "g0": sc["g0"], "prog": sc["prog"], "outcome": o,
                                           "grant_sequence": oc["a_grant_sequence"], "tlc_reasons": reasons})
                    else:
                        drift_real_only += 1
                        pending.append((sc, oc))
                if len(rep.cov["samples"]) < 6 and len(sc["outcomes"]) > 1:
                    rep.cov["samples"].append({"flavour": fl, "g0": sc["g0"], "prog": sc["prog"], "schedules_explored": sc["schedules_explored"],
                                               "outcomes": [x["outcome"] for x in sc["outcomes"]][:4]})
                if sc["schedules_explored"] < fam["max_exec"] and fam.get("pre_bound") is None:
                    drift_model_only += len(set(m["outs"]) - seen)
            if pending:
                tr = os.path.join(d, "adj_%s_f%d.ndjson" % (fl, fi))
                n = fam["nodes"]
                with open(tr, "w") as f:
                    for sc, oc in pending:
                        o = oc["outcome"]
                        pois = o["final"] == "poisoned"
                        fin = {"out": [[]] * n, "inn": [[]] * n} if pois else o["final"]
                        f.write(json.dumps({"ev": "exec", "g0": sc["g0"], "prog": sc["prog"], "rets": o["rets"], "final": fin, "poisoned": pois,
                                            "deadlock": o["deadlock"]}) + "\n")
                cfg = vlib.cfg_text({"Nodes": set(range(1, n + 1)), "Vals": set(fam.get("vals", [1])), "Directed": directed}, spec="TSpec",
                                    invariants=["Consumed"], postcondition="AllConsumed")
                rr = vlib.run_tlc("TraceLocks", cfg, "%s/adjtlc_%s_f%d" % (tag, fl, fi), workers=1, timeout=3000, env={"TRACE": tr}, deque=True, heap="6g")
                if not rr.ok or rr.depth != len(pending) + 1:
                    raise ToolError("TraceLocks did not consume %s: %s (%s)" % (tr, rr.violation, rr.out_file))
                verd = dict(vlib.parse_tla_tuple_prints(rr.prints, "REJECT"))
                for i, (sc, oc) in enumerate(pending):
                    reasons = verd.get(i + 1, [])
                    if not reasons:
                        continue   # behaviour outside the model but allowed by the property: drift only
                    o = oc["outcome"]
                    rep.violation(signature(fl, sc["prog"], reasons),
                                  "%s: initial graph out=%s, threads %s: schedule %s gives returns %s final %s deadlock=%s (an outcome the lock-step model does not have): %s"
                                  % (fl, json.dumps(sc["g0"]["out"]), json.dumps(sc["prog"]), oc["a_grant_sequence"], json.dumps(o["rets"]),
                                     json.dumps(o["final"])[:200], o["deadlock"], ", ".join(reasons)),
                                  {"source": "scheduler (outcome not in the model)", "flavour": fl, "g0": sc["g0"], "prog": sc["prog"], "outcome": o,
                                   "grant_sequence": oc["a_grant_sequence"], "tlc_reasons": reasons})
    # free-running stress: 4 threads of random connect / scan / degree calls on 3 shared nodes (a mix whose pairwise
    # combinations have no known finding): must return, not panic, and leave exactly the performed connects, mirrored;
    # every second round is a churn round (one mutator creating / connecting / disconnecting / dropping short-lived
    # neighbours, three readers): handle drops are not part of Locks.tla, this is where a neighbour dying under a reader is seen
    ST = dict(quick=(12, 300), thorough=(300, 1000))[tier]
    stress_events = 0
    for fl, directed in FLAVOURS.items():
        tr = os.path.join(d, "stress_%s.ndjson" % fl)
        vlib.harness("stress", {"flavour": fl, "rounds": ST[0], "threads": 4, "calls": ST[1], "nodes": 3, "seed": seed, "trace": tr}, timeout=3000)
        lines = [x for x in open(tr).read().split("\n") if x.strip()]
        stress_events += len(lines)
        cfg = vlib.cfg_text({"Nodes": {1, 2, 3}, "Vals": {1}, "Directed": directed}, spec="TSpec", invariants=["Consumed"], postcondition="AllConsumed")
        rr = vlib.run_tlc("TraceLocks", cfg, "%s/stress_%s" % (tag, fl), workers=1, timeout=3000, env={"TRACE": tr}, deque=True, heap="6g")
        if not rr.ok or rr.depth != len(lines) + 1:
            raise ToolError("TraceLocks did not consume %s: %s (%s)" % (tr, rr.violation, rr.out_file))
        for ln, reasons in sorted(dict(vlib.parse_tla_tuple_prints(rr.prints, "REJECT")).items()):
            ev = json.loads(lines[ln - 1])
            churn = bool(ev.get("churn"))
            rep.violation("%s:stress(%s):%s" % (fl, "churn+readers" if churn else "connect+scan+degree", "+".join(sorted(reasons))),
                          "%s: free-running round %d (%s): %s" % (fl, ln, "1 thread creating / connecting / disconnecting / dropping short-lived "
                          "neighbours of 3 shared nodes while 3 threads iterate and search them in both directions" if churn else
                          "4 threads x %d random connect/scan/degree calls" % ST[1], ", ".join(reasons)),
                          {"source": "free-running stress", "flavour": fl, "event": {k: ev[k] for k in ev if k != "connects"}, "tlc_reasons": reasons})
    rep.cov["free_running_stress_rounds_validated_by_tlc"] = stress_events
    # liveness of the design (weak fairness, small constants, no state constraint): every run ends
    lr = vlib.run_tlc("MC_Locks", vlib.cfg_text({"Nodes": {1, 2}, "Vals": {1}, "Directed": False, "Threads": {1, 2}, "MaxCalls": 1, "MaxInitEdges": 1,
                                                 "Rotational": False}, spec="LSpecFair", properties=["EveryRunEnds"]), "%s/live" % tag,
                      workers=4, timeout=3000, collect_prints=False)
    if lr.violation or not lr.ok:
        raise ToolError("liveness EveryRunEnds of MC_Locks fails: %s (%s)" % (lr.violation, lr.out_file))
    rep.cov["liveness"] = {"property": "EveryRunEnds == (phase = run) ~> (phase = end) under WF", "states": lr.distinct, "result": "holds"}
    cov = vlib.action_coverage("MC_Locks", vlib.cfg_text({"Nodes": {1, 2}, "Vals": {1}, "Directed": True, "Threads": {1, 2}, "MaxCalls": 1,
                                                          "MaxInitEdges": 1, "Rotational": False}, spec="LSpec", invariants=["Progress"]), "%s/cov" % tag)
    rep.cov["action_coverage_small_model"] = cov
    rep.cov.update({"states": states, "transitions": transitions, "traces_validated_against_impl": exec_total,
                    "scenarios": scen_total, "schedules_executed_on_real_locks": exec_total, "distinct_outcomes_judged": outcomes_total,
                    "evaluations": exec_total, "distinct_nontrivial": outcomes_total,
                    "rule": "one execution = one complete grant sequence of one scenario on real threads and locks; distinct_nontrivial counts "
                            "distinct (scenario, outcome) pairs, every scenario has two or more threads with a call each",
                    "exhaustive": True, "outcomes_seen_on_real_code_but_not_in_model": drift_real_only,
                    "outcomes_in_model_not_seen_on_real_code": drift_model_only, "models": models, "flavours": list(FLAVOURS), "recorders": recs})
    rep.assumptions += ["schedule points are lock acquisitions: the two adjacency lists behind the per-node lock are the only shared mutable state",
                        "writer preference of std's futex RwLock is simulated: a reader is not granted while a parked writer waits for the same lock",
                        "a thread that stays blocked although the scheduler granted it (acquisition invisible to the hook) is reported as deadlock after 20 s"]
    shutil.rmtree(d, ignore_errors=True)
    return rep.finish()


CHECKS = {"C17": run}
