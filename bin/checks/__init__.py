"""Registry: property id -> check function(pid, tier, seed) -> exit code."""
import json
import subprocess
import sys

from . import adjacency, search, scc, serde, container, paired, cursor, ownership, locks, sendsync, macros

REGISTRY = {}
REGISTRY.update(adjacency.CHECKS)
REGISTRY.update(search.CHECKS)
REGISTRY.update(scc.CHECKS)
REGISTRY.update(serde.CHECKS)
REGISTRY.update(container.CHECKS)
REGISTRY.update(paired.CHECKS)
REGISTRY.update(cursor.CHECKS)
REGISTRY.update(ownership.CHECKS)
REGISTRY.update(locks.CHECKS)
REGISTRY.update(sendsync.CHECKS)
REGISTRY.update(macros.CHECKS)


def replay(pid, path):
    """re-run the single case stored in a replay file on the current tree, let TLC judge it again"""
    import os
    import vlib
    from . import adjacency as A
    from . import search as S
    obj = json.load(open(path))
    print("stored case: %s" % obj.get("description", "")[:400])
    vlib.build_harness()
    if "grant_sequence" in obj.get("case", {}):
        return replay_schedule(pid, path, obj)
    now = vlib.harness("one-case", {"case": path})
    print("re-executed on the current tree: " + json.dumps(now)[:1500])
    tag = "replay_%d" % os.getpid()
    bad = False
    if now.get("kind") == "adjacency" and now.get("post") is not None:
        m = {"kind": "op", "pre": now["pre"], "op": now["op"], "observed": {"res": now["res"], "out": now["post"]["out"], "inn": now["post"]["inn"]},
             "observed_obs": now["obs"]}
        directed = vlib.DIRECTED[now["flavour"]]
        n = len(now["pre"]["out"])
        for _, reasons in A.adjudicate([m], directed, n, 3, tag):
            mine = [x for x in reasons if x in A.REASONS.get(pid, set())]
            print("TLC verdict now: %s" % (reasons or "accepted"))
            bad = bool(mine)
    elif now.get("kind") == "query":
        q = now["query"]
        m = dict(q, out=now["out"], inn=now["inn"], nval=now["nval"], res=now["res"], rt=now["rt"], examined=now["examined"])
        directed = vlib.DIRECTED[now["flavour"]]
        for mm, reasons in S.adjudicate([m], directed, len(now["out"]), tag):
            mine = [x for x in reasons if pid in S.props_for(mm, x, directed)]
            print("TLC verdict now: %s" % (reasons or "accepted"))
            bad = bool(mine)
    else:
        print("(cases of this kind are re-run by `bin/check %s` itself)" % pid)
    import shutil
    shutil.rmtree(os.path.join(vlib.WORK, tag), ignore_errors=True)
    if bad:
        print("VIOLATION property=%s replay=%s" % (pid, path))
        return 1
    return 0


def replay_schedule(pid, path, obj):
    """C17: force the stored grant sequence on the real locks again and let TLC judge the outcome"""
    import os
    import vlib
    now = vlib.harness("sched-replay", {"case": path})
    print("re-executed on the current tree: " + json.dumps(now)[:1500])
    o = now["outcome"]
    n = len(now["g0"]["out"])
    pois = o["final"] == "poisoned"
    tag = "replay_%d" % os.getpid()
    d = os.path.join(vlib.WORK, tag)
    os.makedirs(d, exist_ok=True)
    tr = os.path.join(d, "ev.ndjson")
    with open(tr, "w") as f:
        f.write(json.dumps({"ev": "exec", "g0": now["g0"], "prog": now["prog"], "rets": o["rets"], "poisoned": pois, "deadlock": o["deadlock"],
                            "final": {"out": [[]] * n, "inn": [[]] * n} if pois else o["final"]}) + "\n")
    cfg = vlib.cfg_text({"Nodes": set(range(1, n + 1)), "Vals": {1}, "Directed": vlib.DIRECTED[now["flavour"]]}, spec="TSpec",
                        invariants=["Consumed"], postcondition="AllConsumed")
    r = vlib.run_tlc("TraceLocks", cfg, tag + "/tlc", workers=1, timeout=600, env={"TRACE": tr}, deque=True)
    verd = dict(vlib.parse_tla_tuple_prints(r.prints, "REJECT"))
    print("TLC verdict now: %s" % (verd.get(1) or "accepted"))
    import shutil
    shutil.rmtree(d, ignore_errors=True)
    if verd.get(1):
        from vlib import load_known
        sig = obj.get("signature")
        if any(k["property"] == pid and k["signature"] == sig for k in load_known().get("findings", [])):
            print("KNOWN-FINDING: property=%s %s" % (pid, sig))
            return 0
        print("VIOLATION property=%s replay=%s" % (pid, path))
        return 1
    return 0
