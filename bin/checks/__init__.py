"""Registry: property id -> check function(pid, tier, seed) -> exit code."""
import json
import subprocess
import sys

from . import adjacency, search, scc, serde, container, paired, cursor, ownership, locks, sendsync, macros

REGISTRY = {}
REGISTRY.update(adjacency.CHECKS)
REGISTRY.update(search.CHECKS)
REGISTRY.update(scc.CHECKS)
REGISTRY.update(serde.CHECKS)
REGISTRY.update(container.CHECKS)
REGISTRY.update(paired.CHECKS)
REGISTRY.update(cursor.CHECKS)
REGISTRY.update(ownership.CHECKS)
REGISTRY.update(locks.CHECKS)
REGISTRY.update(sendsync.CHECKS)
REGISTRY.update(macros.CHECKS)


def replay(pid, path):
    """re-run the single case stored in a replay file and print what happens"""
    obj = json.load(open(path))
    mod = sys.modules[REGISTRY[pid].__module__]
    if hasattr(mod, "replay_case"):
        return mod.replay_case(pid, obj)
    print(json.dumps(obj, indent=1))
    return 0
