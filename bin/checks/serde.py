"""C12 (round trip) and C13 (untrusted documents).

C12: MC_Serde checks RoundTripAllOrders (every small graph x every container
  iteration order) and emits the graphs; the harness round-trips each of them
  through the real serde_json and serde_cbor code of each container type
  (several fresh containers / insertion orders) and logs graph / ser / de
  events; TLC (TraceSerde) gives a verdict per event: the document must be a
  serialisation of the graph in the spec's wire shape, and the deserialised
  graph must satisfy RoundTripOK. Seeded graphs up to 40 nodes likewise.
C13: MC_Serde enumerates every small abstract document with the outcome of the
  algorithm layer (checked against UntrustedOK); the harness renders each as
  JSON and CBOR and compares the real outcome (stage 1); disagreements and
  seeded structural / byte-level mutations of valid documents are judged by
  TLC (UntrustedOK, never panic / hang).
"""
import concurrent.futures as cf
import json
import os
import shutil

import vlib
from vlib import Reporter, ToolError, log

ALL4 = ["digraph", "sync_digraph", "ungraph", "sync_ungraph"]
TIERS = {
    "quick": dict(nodes=3, vals=2, max_edges=3, instances=2, random=60, rnodes=40,
                  doc_nodes=2, doc_edges=2, mutations=2000, mpad=6),
    "thorough": dict(nodes=3, vals=2, max_edges=4, instances=4, random=500, rnodes=40,
                     doc_nodes=3, doc_edges=3, mutations=50000, mpad=6),
}


def consts(T, directed):
    return {"Nodes": set(range(1, T["nodes"] + 1)), "Vals": set(range(1, T["vals"] + 1)), "Directed": directed,
            "MaxEdges": T["max_edges"], "MaxDocNodes": T["doc_nodes"], "MaxDocEdges": T["doc_edges"], "DocVals": {10, 20}}


def verdicts(trace, directed, nodes, tag):
    cfg = vlib.cfg_text({"Nodes": set(range(1, nodes + 1)), "Vals": {1, 2, 3}, "Directed": directed},
                        spec="TSpec", invariants=["Consumed"], postcondition="AllConsumed")
    r = vlib.run_tlc("TraceSerde", cfg, tag, workers=1, timeout=3000, env={"TRACE": trace}, deque=True, heap="6g")
    n = sum(1 for x in open(trace) if x.strip())
    if not r.ok or r.depth != n + 1:
        raise ToolError("TraceSerde did not consume %s: depth %d of %d; %s (%s)" % (trace, r.depth, n, r.violation, r.out_file))
    return dict(vlib.parse_tla_tuple_prints(r.prints, "REJECT"))


def run_c12(pid, tier, seed):
    rep = Reporter(pid, tier, seed)
    T = TIERS[tier]
    tag = "%s_%s_%d" % (pid, tier, os.getpid())
    d = os.path.join(vlib.WORK, tag)
    states = transitions = 0
    models = []
    case_files = {}
    for directed in (True, False):
        cfg = vlib.cfg_text(consts(T, directed), spec="GSpec", invariants=["RoundTripAllOrders", "InvMirror"])
        r = vlib.run_tlc("MC_Serde", cfg, "%s/mc_%s" % (tag, "dir" if directed else "und"), workers=16, timeout=3000,
                         collect_prints=False)
        if r.violation or not r.ok:
            raise ToolError("design model MC_Serde: %s (%s)" % (r.violation, r.out_file))
        log("%s: model Directed=%s: %d distinct states, %.1fs" % (pid, directed, r.distinct, r.wall))
        states += r.distinct
        transitions += r.generated
        models.append({"model": "MC_Serde/GSpec", "Directed": directed, "Nodes": T["nodes"], "Vals": T["vals"], "MaxEdges": T["max_edges"],
                       "container_orders": "all permutations (inside RoundTripAllOrders)", "distinct_states": r.distinct})
        case_files[directed] = r.out_file
    # exhaustive family (pad = nodes) and random larger graphs (pad = rnodes): two traces per flavour
    jobs = []
    for fl in ALL4:
        jobs.append(("record-serde", dict(flavour=fl, cases=case_files[vlib.DIRECTED[fl]], instances=T["instances"], pad=T["nodes"],
                                          seed=seed, trace=os.path.join(d, "small_%s.ndjson" % fl)), os.path.join(d, "small_%s.json" % fl)))
        jobs.append(("record-serde", dict(flavour=fl, random=T["random"], instances=2, pad=T["rnodes"], seed=seed,
                                          trace=os.path.join(d, "big_%s.ndjson" % fl)), os.path.join(d, "big_%s.json" % fl)))
    recs = vlib.harness_parallel(jobs, timeout=3000)
    todo = [(fl, kind) for fl in ALL4 for kind in ("small", "big")]
    events = graphs = nontriv = drift = 0

    def one(x):
        fl, kind = x
        tr = os.path.join(d, "%s_%s.ndjson" % (kind, fl))
        return fl, kind, tr, verdicts(tr, vlib.DIRECTED[fl], T["nodes"] if kind == "small" else T["rnodes"], "%s/tv_%s_%s" % (tag, kind, fl))
    with cf.ThreadPoolExecutor(max_workers=8) as ex:
        for fl, kind, tr, verd in ex.map(one, todo):
            lines = [x for x in open(tr).read().split("\n") if x.strip()]
            events += len(lines)
            if kind == "small" and len(rep.cov["samples"]) < 6:
                k = min(len(lines) - 3, 2000)
                rep.cov["samples"].append({"flavour": fl, "events": [json.loads(x) for x in lines[k:k + 3]]})
            for ln, reasons in sorted(verd.items()):
                real = [x for x in reasons if not x.startswith("drift:")]
                if not real:
                    drift += 1
                    continue
                ev = json.loads(lines[ln - 1])
                g = next(json.loads(lines[k]) for k in range(ln - 1, -1, -1) if json.loads(lines[k])["ev"] == "graph")
                sig = "%s:%s:%s:%s" % (fl, ev["ev"], ev.get("fmt"), "+".join(sorted(real)))
                rep.violation(sig, "%s/%s: graph out=%s inn=%s: %s event rejected by TLC: %s; %s"
                              % (fl, ev.get("fmt"), json.dumps(g["out"])[:200], json.dumps(g["inn"])[:200], ev["ev"], ", ".join(real),
                                 json.dumps(ev.get("res") if ev["ev"] == "de" else ev.get("doc"))[:300]),
                              {"source": "recorded-roundtrip", "flavour": fl, "graph": g, "event": ev, "tlc_reasons": reasons})
    for x in recs:
        graphs += x["graphs"]
        nontriv += x["distinct_nontrivial"]
    small = dict(consts(T, True), MaxEdges=2)
    rep.cov["action_coverage_small_model"] = vlib.action_coverage("MC_Serde", vlib.cfg_text(small, spec="GSpec", invariants=["RoundTripAllOrders"]), "%s/cov" % tag)
    rep.cov.update({"states": states, "transitions": transitions, "traces_validated_against_impl": graphs,
                    "recorded_events_validated_by_tlc": events, "evaluations": events, "distinct_nontrivial": nontriv,
                    "rule": "one round trip = (graph, flavour, format json/cbor, fresh container with one insertion order); non-trivial = graph has an edge; "
                            "distinct by all of these", "exhaustive": True, "model_drift": drift, "models": models, "flavours": ALL4,
                    "formats": ["json", "cbor"], "recorders": recs})
    rep.assumptions += ["payload types u32 keys / i64 values (no payload-specific serde behaviour)",
                        "the real container order cannot be steered; the model covers every order, the code is run on several fresh containers"]
    shutil.rmtree(d, ignore_errors=True)
    return rep.finish()


def run_c13(pid, tier, seed):
    rep = Reporter(pid, tier, seed)
    T = TIERS[tier]
    tag = "%s_%s_%d" % (pid, tier, os.getpid())
    d = os.path.join(vlib.WORK, tag)
    states = transitions = execs = docs = nontriv = drift = 0
    models = []
    for directed in (True, False):
        cfg = vlib.cfg_text(consts(T, directed), spec="DSpec", invariants=["DeserAllowed", "DeserErrIff"])
        r = vlib.run_tlc("MC_Serde", cfg, "%s/mc_%s" % (tag, "dir" if directed else "und"), workers=16, timeout=3000, collect_prints=False)
        if r.violation or not r.ok:
            raise ToolError("design model MC_Serde/DSpec: %s (%s)" % (r.violation, r.out_file))
        log("%s: documents Directed=%s: %d distinct states, %.1fs" % (pid, directed, r.distinct, r.wall))
        states += r.distinct
        transitions += r.generated
        models.append({"model": "MC_Serde/DSpec", "Directed": directed, "keys": T["nodes"], "MaxDocNodes": T["doc_nodes"],
                       "MaxDocEdges": T["doc_edges"], "distinct_states": r.distinct, "invariants": ["DeserAllowed", "DeserErrIff"]})
        fls = [f for f in ALL4 if vlib.DIRECTED[f] == directed]
        jobs = [("replay-untrusted", {"flavour": f, "cases": r.out_file, "pad": T["nodes"]}, os.path.join(d, "rep_%s.json" % f)) for f in fls]
        for res in vlib.harness_parallel(jobs, timeout=3000):
            if res["docs"] == 0:
                raise ToolError("no documents emitted")
            docs += res["docs"]
            execs += res["executions"]
            nontriv += res["distinct_nontrivial"]
            rep.cov["samples"] += res["samples"][:1]
            mism = res["mismatches"]
            if res["n_mismatch"] > len(mism):
                rep.notes.append("%s: %d disagreements, first %d adjudicated" % (res["flavour"], res["n_mismatch"], len(mism)))
            if mism:
                tr = os.path.join(d, "adj_%s.ndjson" % res["flavour"])
                pad = T["nodes"]
                empty = {"keys": [], "vals": [0] * pad, "out": [[]] * pad, "inn": [[]] * pad}
                with open(tr, "w") as f:
                    for m in mism:
                        f.write(json.dumps({"ev": "untrusted", "fmt": m["fmt"], "hasdoc": True, "doc": m["doc"], "rt": m["rt"],
                                            "res": m["res"] if m["rt"] == "graph" else empty}) + "\n")
                verd = verdicts(tr, directed, pad, "%s/adjtlc_%s" % (tag, res["flavour"]))
                for i, m in enumerate(mism):
                    reasons = verd.get(i + 1, [])
                    if not reasons:
                        drift += 1
                        continue
                    rep.violation("%s:untrusted:%s:%s" % (res["flavour"], m["fmt"], "+".join(sorted(reasons))),
                                  "%s/%s: document %s gave %s %s; TLC: %s" % (res["flavour"], m["fmt"], json.dumps(m["doc"]), m["rt"],
                                                                              json.dumps(m["res"])[:200], ", ".join(reasons)),
                                  dict(m, source="tlc-generated-document", tlc_reasons=reasons))
    # seeded mutations of valid documents
    jobs = [("record-untrusted", dict(flavour=f, mutations=T["mutations"], pad=T["mpad"], seed=seed,
                                      trace=os.path.join(d, "mut_%s.ndjson" % f)), os.path.join(d, "mut_%s.json" % f)) for f in ALL4]
    recs = vlib.harness_parallel(jobs, timeout=3000)
    events = 0

    def one(fl):
        tr = os.path.join(d, "mut_%s.ndjson" % fl)
        return fl, tr, verdicts(tr, vlib.DIRECTED[fl], T["mpad"], "%s/tv_%s" % (tag, fl))
    with cf.ThreadPoolExecutor(max_workers=4) as ex:
        for fl, tr, verd in ex.map(one, ALL4):
            lines = [x for x in open(tr).read().split("\n") if x.strip()]
            events += len(lines)
            ev0 = json.loads(lines[7])
            rep.cov["samples"].append({"flavour": fl, "mutation": ev0["mutation"], "input": ev0["input"][:200], "outcome": ev0["rt"]})
            for ln, reasons in sorted(verd.items()):
                ev = json.loads(lines[ln - 1])
                rep.violation("%s:untrusted-mutation:%s:%s" % (fl, ev["fmt"], "+".join(sorted(reasons))),
                              "%s/%s: mutated document (%s) %s gave %s; TLC: %s" % (fl, ev["fmt"], ev["mutation"], ev["input"][:200],
                                                                                   json.dumps(ev["res"] if ev["rt"] == "graph" else ev["detail"])[:200], ", ".join(reasons)),
                              {"source": "seeded-mutation", "flavour": fl, "event": ev, "tlc_reasons": reasons})
    small = dict(consts(T, True), MaxDocNodes=1, MaxDocEdges=1)
    rep.cov["action_coverage_small_model"] = vlib.action_coverage("MC_Serde", vlib.cfg_text(small, spec="DSpec", invariants=["DeserAllowed", "DeserErrIff"]), "%s/cov" % tag)
    rep.cov.update({"states": states, "transitions": transitions, "traces_validated_against_impl": docs + events,
                    "tlc_documents_replayed_into_impl": docs, "implementation_executions_compared": execs,
                    "mutated_documents_validated_by_tlc": events, "evaluations": execs + events,
                    "distinct_nontrivial": nontriv + sum(x["distinct_inputs"] for x in recs),
                    "rule": "one execution = one document (abstract document rendered as JSON or CBOR, or a seeded mutation of a valid "
                            "serialisation) deserialised into one container type under a 5 s watchdog; non-trivial = declares a node; mutations distinct by bytes",
                    "exhaustive": True, "model_drift": drift, "models": models, "flavours": ALL4, "recorders": recs})
    rep.assumptions += ["u32 keys / i64 values", "hang = no return within 5 s"]
    shutil.rmtree(d, ignore_errors=True)
    return rep.finish()


CHECKS = {"C12": run_c12, "C13": run_c13}
