#!/usr/bin/env python3
"""Prints the prompt given to a fresh sub-agent that writes a seeded breaking change.

usage: bin/seed_prompt.py <property id> <scratch worktree> ["ideas already tried ..."]

The agent gets ONLY the property text (id, title, statement, quantifier) and its own scratch
git worktree of /repo (`git -C /repo worktree add --detach <dir> HEAD; mkdir <dir>/OUT`),
nothing from /verif.  Afterwards: `bin/seedtest <seed-name> <worktree> <props...>` confirms the
demonstration, stores /verif/seeded/<seed-name>/ and runs the quick checks against the patch;
then `git -C /repo worktree remove --force <dir>`.
"""
import json
import os
import sys

V = os.path.dirname(os.path.dirname(os.path.abspath(__file__)))
pid, wt = sys.argv[1], sys.argv[2]
tried = sys.argv[3] if len(sys.argv) > 3 else ""
p = next(json.loads(l) for l in open(os.path.join(V, "properties.jsonl")) if l.strip() and json.loads(l)["id"] == pid)
q = p["quantifier"]
prop = "%s — %s\n\n%s\n\nQuantifier: %s\n" % (p["id"], p["title"], p["statement"], q.get("text", q) if isinstance(q, dict) else q)
print(f"""You are testing how good a verification effort is by writing a realistic BUG. Work ONLY inside the git worktree {wt} (a checkout of the Rust crate `gdsl`, a graph data-structure library: four flavours `digraph`, `sync_digraph`, `ungraph`, `sync_ungraph` that are textual copies of each other under src/). Do not read or write anything under /repo or /verif. There is no network; use `cargo ... --offline` only.

The library is supposed to satisfy this property:

---
{prop}
---

Your task: make a SMALL, realistic change to the library source under {wt}/src (the kind of slip a maintainer could make in a refactoring or 'optimisation': an off-by-one, a wrong list, a swapped argument, a missing case, a changed order, a condition that is too weak, an edit applied to one of the flavour copies only, two sites that each look fine alone ...) that BREAKS the property, while
  (1) the crate still compiles (`cd {wt} && cargo build --offline`), also with `RUSTFLAGS="--cfg gdsl_verif" cargo build --offline --target-dir {wt}/target_v`;
  (2) the existing test suite still passes unchanged: `cd {wt} && cargo test --workspace --no-fail-fast --offline` (all tests incl. doc tests must pass);
  (3) the breakage is NOT exposed by ordinary use at once: it must need something specific to manifest - a particular multi-step sequence of operations, an unusual input shape (self-loop, parallel edges with different values, a particular position in a list, a particular insertion order, ties, a filter, transposition, one specific flavour or one specific entry point ...), or two cooperating sites. Avoid changes that break basically every call.
Do not touch tests/, examples/, benches/, Cargo.toml, or src/verif_hook.rs, and do not change anything guarded by cfg(gdsl_verif).

Then write a demonstration: a small integration test file {wt}/OUT/demo.rs (it will be copied to tests/demo_{pid}.rs; use `use gdsl::...` / the public API and the crate's macros as the existing tests in tests/ do) with one or more #[test] functions that FAIL with your change and PASS on the original code. Verify both yourself: run it with your change (must fail), then `git stash` (or otherwise revert src/), run it again (must pass), then re-apply your change.

Deliverables, all in {wt}/OUT/:
  - patch.diff : output of `git -C {wt} diff -- src` (only your library change)
  - demo.rs    : the demonstration test
  - meta.txt   : 5-10 lines: what you changed, which part of the property it breaks, exactly what is needed for it to manifest, and the commands you ran with their outcome.
Keep the change minimal (a few lines). When done, leave the worktree with your change applied and reply with a short summary (what/where/how it manifests). Think about what would be hard for a verifier to notice, but it must be a genuine violation of the property as stated, observable through the public API.""")
if tried:
    print(f"""
IMPORTANT: the following ideas were already tried for this property, so do something DIFFERENT in kind (another function, another mechanism, another flavour or entry point; ideally two cooperating sites that each look fine alone, or something that only shows for one specific flavour + option combination, for particular payload / key types or values, or only on larger inputs / longer histories): {tried}.
The machine is busy: use at most 2 parallel cargo jobs (-j2) and be patient.""")
